"""Abstract dataset for per-stage contracts (layer L1): symbolic, possibly unbounded length; example j is the token
(tag, j).  A stage that satisfies its contract on abstract inputs satisfies it on every concrete input of any length."""
import numbers

from lazy_dataset.core import Dataset


class AbsDS(Dataset):
    def __init__(self, tag, length):
        self.tag = tag
        self.length = length

    indexable = True
    ordered = True

    def copy(self, freeze=False):
        return self

    def __len__(self):
        return self.length

    def __iter__(self, with_key=False):
        i = 0
        while i < self.length:
            yield (self.tag, i)
            i += 1

    def __getitem__(self, i):
        if isinstance(i, numbers.Integral):
            if i < -self.length or i >= self.length:
                raise IndexError('abstract dataset index out of range')
            if i < 0:
                i = i + self.length
            return (self.tag, i)
        return super().__getitem__(i)
