"""E2 front end: Python AST of parallel_utils functions -> per-thread control-flow graph of guarded commands.

Continuation-passing compilation of statement lists with a context (k_return, k_break, k_raise(kind)).
`try/finally` duplicates the finally body once per continuation (memoised); `except` clauses are resolved at
compile time against the finite set of exception kinds; `yield` has two outgoing commands (continue / GeneratorExit
according to close_at); `for x in <source>` has item / StopIteration / raise commands according to fail_at.
One command = one shared-variable access or one modelled library call, in Python evaluation order.

Anything outside the supported subset raises Unsupported -> the check reports TRANSLATION-UNSUPPORTED (exit 2).
State is encoded in W-bit bit-vectors (functional next-state per thread, see encode.py).
"""
import ast

import z3

W = 8


def IV(x):
    return z3.BitVecVal(x, W)


# exception kinds
NONE, GENEXIT, UEXC, UBASE, EMPTY, UEMPTY, STOPITER = 0, 1, 2, 3, 4, 5, 6
# UEMPTY: the *user's* code (source iterator / mapped function) raises queue.Empty itself - "raises anything" includes the
# library exception types that the function under analysis catches for its own purposes
# STOPITER: StopIteration out of an explicit next(<source iterator>) (the implicit one of a for loop never surfaces)
KNAME = {GENEXIT: 'GeneratorExit', UEXC: 'UserException', UBASE: 'UserBaseException', EMPTY: 'queue.Empty', UEMPTY: 'UserQueueEmpty',
         STOPITER: 'StopIteration'}
USER_KINDS = (UEXC, UBASE, UEMPTY)
SENT = -2           # token for `object()`
NOITEM = -1

# future / task states
NOTSUB, PENDING, RUNNING, DONE_OK, DONE_EXC, CANCELLED, KILLED, LOST = range(8)
# LOST: multiprocessing.Pool / pathos - the worker process died while running the task (its function raised a BaseException that is not an
# Exception, which pool.worker() does not catch); the pool replaces the worker but the AsyncResult is never completed


class Unsupported(Exception):
    pass


def matches(exc_type_src, kind):
    """does `except <exc_type_src>` catch exception kind?"""
    t = exc_type_src
    if t is None or t == 'BaseException':
        return True
    if t == 'Exception':
        return kind in (UEXC, EMPTY, UEMPTY, STOPITER)
    if t == 'StopIteration':
        return kind == STOPITER
    if t == 'GeneratorExit':
        return kind == GENEXIT
    if t in ('queue.Empty', 'Empty', '_queue.Empty'):
        return kind in (EMPTY, UEMPTY)
    if t.startswith('(') and t.endswith(')'):
        return any(matches(x.strip(), kind) for x in t[1:-1].split(',') if x.strip())
    raise Unsupported('except ' + t)


NOOP_ROOTS = ('LOG', 'LOGGER', 'logger', 'log', '_logger', '_LOG', 'logging', 'warnings')
NOOP_CALLS = ('print', 'time.sleep', 'gc.collect')


def is_noop_call(e):
    """logging / printing / sleeping: stubs with empty bodies (formatting and wall-clock time are not part of any property here; a
    sleep only changes which schedule the OS picks, and every schedule is explored anyway)"""
    if not isinstance(e, ast.Call):
        return False
    f = e.func
    if ast.unparse(f) in NOOP_CALLS:
        return True
    root = f
    while isinstance(root, ast.Attribute):
        root = root.value
    return isinstance(f, ast.Attribute) and isinstance(root, ast.Name) and root.id in NOOP_ROOTS


def const_kw(e, name, pos=None, default=None):
    """value of a constant keyword / positional argument of a call, `default` if absent; Unsupported if not a constant"""
    v = None
    for kw in e.keywords:
        if kw.arg == name:
            v = kw.value
    if v is None and pos is not None and len(e.args) > pos:
        v = e.args[pos]
    if v is None:
        return default
    if not isinstance(v, ast.Constant):
        raise Unsupported(f'non-constant {name}= in ' + ast.unparse(e)[:60])
    return v.value


class Edge:
    __slots__ = ('thread', 'src', 'dst', 'guard', 'upd', 'label', 'line', 'local')

    def __init__(self, thread, src, dst, guard, upd, label, line, local=False):
        self.thread, self.src, self.dst, self.guard, self.upd, self.label, self.line = thread, src, dst, guard, upd, label, line
        self.local = local     # sub-step of a source line that touches only thread-local temporaries (no line event of its own)


class Prog:
    def __init__(self):
        self.edges = []
        self.nloc = {}          # thread -> count
        self.vars = {}          # name -> ('bool'|'int', init)
        self.queues = {}        # name -> (ctor source, capacity expr or None)
        self.threads = {}       # thread object name -> function name
        self.excvars = set()    # names that hold a stored exception (sys.exc_info(), `except ... as e`, copies): value = exception kind
        self.sources = set()    # names bound to iter(<source>)
        self.sems = {}          # semaphore / lock name -> initial value (int or AST over the parameters)
        self.events = set()     # threading.Event names
        self.desc = {}

    def newloc(self, thread, desc=''):
        i = self.nloc.get(thread, 0)
        self.nloc[thread] = i + 1
        self.desc[(thread, i)] = desc
        return i

    def edge(self, thread, src, dst, guard=None, upd=None, label='', line=0, local=False):
        self.edges.append(Edge(thread, src, dst, guard, upd or _noupd, label, line, local))


def _noupd(S):
    return {}


class Ctx:
    def __init__(self, k_return, k_break, k_raise, k_return_value=None, k_continue=None):
        self.k_return, self.k_break, self.k_raise, self.k_return_value = k_return, k_break, k_raise, k_return_value
        self.k_continue = k_continue


def _no_loop():
    raise Unsupported('break outside loop')


class Compiler:
    """compiles one function body (one thread) into prog"""

    def __init__(self, prog, thread, params, QC, adapters=None, ntasks=0, pool_kind=None):
        self.p, self.t, self.QC = prog, thread, QC
        self.params = params          # name -> 'source' | 'intparam'
        self.memo = {}
        self.tokens = {}
        self.end_of = {}
        self.adapters = adapters or {}
        self.N = ntasks
        self.pool_kind = pool_kind    # None | 'thread' | 'process' | 'mpool' | 'pathos'
        self.tmp = 0
        self.subst = {}
        self.varargs = {}
        self.handling = []
        self.lists = set()
        self.views = {}         # name -> ('qelem', queue, index) | ('qview', queue, offset): names bound to (parts of) the content of a queue
        self.pyconst = {}       # names with a concrete Python value in this instantiation (e.g. backend)

    # ------------------------------------------------------------------ expressions (pure)
    def name(self, n):
        return self.subst.get(n, n)

    @staticmethod
    def truth(v):
        return v if z3.is_bool(v) else v != 0

    def view_of(self, e):
        """(queue, offset) if e denotes the content of a queue: q.queue, list(q.queue), tuple(q.queue), a name bound to a tail of it"""
        if isinstance(e, ast.Call) and isinstance(e.func, ast.Name) and e.func.id in ('list', 'tuple') and len(e.args) == 1 and not e.keywords:
            return self.view_of(e.args[0])
        if isinstance(e, ast.Attribute) and e.attr == 'queue' and isinstance(e.value, ast.Name) and self.name(e.value.id) in self.p.queues:
            return self.name(e.value.id), 0
        if isinstance(e, ast.Name) and e.id in self.views and self.views[e.id][0] == 'qview':
            return self.views[e.id][1], self.views[e.id][2]
        return None

    def ev_pure_adapter(self, e, S):
        """a nested helper that only computes a value from observers: `return <expr>`, optionally after unpacking the content of a queue and
        inside `try: ... except AttributeError: return <expr>` (the handler is what a pool without Future objects gets)"""
        fd = self.adapters[e.func.id]
        params = [a.arg for a in fd.args.args]
        if fd.args.vararg or fd.args.kwarg or fd.args.kwonlyargs or fd.args.defaults or len(params) != len(e.args) \
                or any(not isinstance(a, ast.Name) for a in e.args):
            raise Unsupported('expression ' + ast.unparse(e)[:60])
        body = [b for b in fd.body if not (isinstance(b, ast.Expr) and isinstance(b.value, ast.Constant))]
        if len(body) == 1 and isinstance(body[0], ast.Try) and not body[0].finalbody and not body[0].orelse and len(body[0].handlers) == 1 \
                and ast.unparse(body[0].handlers[0].type) == 'AttributeError':
            body = body[0].body if self.pool_kind in ('thread', 'process') else body[0].handlers[0].body
            body = [b for b in body if not (isinstance(b, ast.Expr) and isinstance(b.value, ast.Constant))]
        old_subst, old_views = self.subst, dict(self.views)
        self.subst = dict(old_subst)
        self.subst.update({prm: self.name(a.id) for prm, a in zip(params, e.args)})
        try:
            for st in body[:-1]:
                # first, *rest = q.queue
                if isinstance(st, ast.Assign) and len(st.targets) == 1 and isinstance(st.targets[0], (ast.Tuple, ast.List)) and self.view_of(st.value) is not None:
                    q, off = self.view_of(st.value)
                    j = off
                    for t in st.targets[0].elts:
                        if isinstance(t, ast.Name):
                            self.views[t.id] = ('qelem', q, j)
                            j += 1
                        elif isinstance(t, ast.Starred) and isinstance(t.value, ast.Name) and t is st.targets[0].elts[-1]:
                            self.views[t.value.id] = ('qview', q, j)
                        else:
                            raise Unsupported(ast.unparse(st)[:60])
                    continue
                raise Unsupported('statement in a pure helper: ' + ast.unparse(st)[:60])
            if not body or not isinstance(body[-1], ast.Return) or body[-1].value is None:
                raise Unsupported('helper used in an expression does not end with `return <expr>`: ' + e.func.id)
            return self.ev(body[-1].value, S)
        finally:
            self.subst, self.views = old_subst, old_views

    def is_bool_expr(self, e):
        """does the pure expression e denote a truth value (decides the sort of the variable it is assigned to)"""
        if isinstance(e, ast.Constant):
            return isinstance(e.value, bool)
        if isinstance(e, (ast.Compare, ast.BoolOp)):
            return True
        if isinstance(e, ast.UnaryOp) and isinstance(e.op, ast.Not):
            return True
        if isinstance(e, ast.IfExp):
            return self.is_bool_expr(e.body) and self.is_bool_expr(e.orelse)
        if isinstance(e, ast.Name):
            return self.p.vars.get(self.name(e.id), ('int', 0))[0] == 'bool'
        if isinstance(e, ast.Call) and isinstance(e.func, ast.Attribute):
            return e.func.attr in ('empty', 'full', 'is_alive', 'is_set', 'isSet', 'locked')
        return False

    def is_source(self, n):
        n = self.name(n)
        return self.params.get(n) == 'source' or n in self.p.sources

    def next_source(self, tgt, k_item, k_stop, ctx, L, label='next'):
        """one next() on the source iterator: an item (bound to tgt), exhaustion (continues at k_stop), or the failure chosen by the solver"""
        p, t = self.p, self.t
        here = p.newloc(t, f'{label}@{L}')
        self.declare(tgt, 'int', NOITEM)
        p.edge(t, here, k_item, guard=lambda S: z3.And(S['$pulled'] != S['$fail_at'], S['$pulled'] < S['$n']),
               upd=lambda S: {tgt: S['$pulled'], '$pulled': S['$pulled'] + 1}, label='next-item', line=L)
        p.edge(t, here, k_stop, guard=lambda S: z3.And(S['$pulled'] != S['$fail_at'], S['$pulled'] >= S['$n']), label='next-stop', line=L)
        for kind in USER_KINDS:
            p.edge(t, here, ctx.k_raise(kind), guard=lambda S, kind=kind: z3.And(S['$pulled'] == S['$fail_at'], S['$fail_kind'] == kind),
                   upd=lambda S, kind=kind: {'$raised': IV(kind), '$src_failed': z3.BoolVal(True)}, label=f'next-raise-{KNAME[kind]}', line=L)
        return here

    def ev(self, e, S):
        if isinstance(e, ast.Constant):
            if e.value is None:
                return IV(NONE)
            if isinstance(e.value, bool):
                return z3.BoolVal(e.value)
            if isinstance(e.value, int):
                return IV(e.value)
            raise Unsupported(ast.dump(e))
        if isinstance(e, ast.Name) and e.id in self.views:
            kind, q, j = self.views[e.id]
            if kind == 'qelem':
                return S[f'{q}[{j}]']
            raise Unsupported('queue view used as a value: ' + e.id)
        if isinstance(e, ast.Compare) and len(e.ops) == 1 and isinstance(e.left, ast.Name) and e.left.id in self.pyconst \
                and isinstance(e.comparators[0], ast.Constant):
            a, b, op = self.pyconst[e.left.id], e.comparators[0].value, e.ops[0]
            r = {ast.Is: a is b, ast.IsNot: a is not b, ast.Eq: a == b and type(a) is type(b), ast.NotEq: not (a == b and type(a) is type(b))}.get(type(op))
            if r is None:
                raise Unsupported('comparison of ' + e.left.id)
            return z3.BoolVal(bool(r))
        if isinstance(e, ast.Name):
            n = self.name(e.id)
            if n in self.p.vars:
                return S[n]
            if n in self.tokens:
                return IV(self.tokens[n])
            if self.params.get(n) == 'intparam':
                return S['$' + n]
            raise Unsupported('name ' + n)
        if isinstance(e, ast.Subscript) and isinstance(e.value, ast.Name) and self.name(e.value.id) in self.lists:
            lst = self.name(e.value.id)
            idx = e.slice
            if isinstance(idx, ast.UnaryOp) and isinstance(idx.op, ast.USub) and isinstance(idx.operand, ast.Constant):
                return self.lst_get(S, lst, S[lst + '.len'] - idx.operand.value)
            if isinstance(idx, ast.Constant) and isinstance(idx.value, int):
                return self.lst_get(S, lst, IV(idx.value))
            raise Unsupported('list subscript ' + ast.unparse(e))
        if isinstance(e, ast.UnaryOp) and isinstance(e.op, ast.Not):
            return z3.Not(self.ev(e.operand, S))
        if isinstance(e, ast.BoolOp):
            vs = [self.ev(v, S) for v in e.values]
            return z3.And(vs) if isinstance(e.op, ast.And) else z3.Or(vs)
        if isinstance(e, ast.Compare) and len(e.ops) == 1:
            a, b = self.ev(e.left, S), self.ev(e.comparators[0], S)
            op = e.ops[0]
            if isinstance(op, (ast.Is, ast.Eq)):
                return a == b
            if isinstance(op, (ast.IsNot, ast.NotEq)):
                return a != b
            if isinstance(op, ast.Lt):
                return a < b
            if isinstance(op, ast.LtE):
                return a <= b
            if isinstance(op, ast.Gt):
                return a > b
            if isinstance(op, ast.GtE):
                return a >= b
        if isinstance(e, ast.IfExp):
            return z3.If(self.ev(e.test, S), self.ev(e.body, S), self.ev(e.orelse, S))
        if isinstance(e, ast.BinOp) and isinstance(e.op, (ast.Add, ast.Sub)):
            a, b = self.ev(e.left, S), self.ev(e.right, S)
            return a + b if isinstance(e.op, ast.Add) else a - b
        if isinstance(e, ast.Call) and isinstance(e.func, ast.Name) and e.func.id in ('max', 'min') and len(e.args) >= 2 and not e.keywords:
            vals = [self.ev(x, S) for x in e.args]
            out = vals[0]
            for v in vals[1:]:
                out = z3.If(v > out, v, out) if e.func.id == 'max' else z3.If(v < out, v, out)
            return out
        if isinstance(e, ast.Call) and isinstance(e.func, ast.IfExp):
            # (x.done if hasattr(x, 'done') else x.ready)(): the test is decided by the pool kind
            t = z3.simplify(self.ev(e.func.test, S))
            if z3.is_true(t) or z3.is_false(t):
                return self.ev(ast.copy_location(ast.Call(func=e.func.body if z3.is_true(t) else e.func.orelse, args=e.args, keywords=e.keywords), e), S)
            raise Unsupported('call of a conditional expression ' + ast.unparse(e)[:60])
        if isinstance(e, ast.Call) and isinstance(e.func, ast.Name) and e.func.id in ('isinstance', 'hasattr') and len(e.args) == 2 and self.pool_kind is not None:
            # a job object of this instantiation: concurrent.futures.Future for the executor pools, AsyncResult for multiprocessing / pathos
            fut = self.pool_kind in ('thread', 'process')
            what = ast.unparse(e.args[1])
            if e.func.id == 'isinstance' and what in ('concurrent.futures.Future', 'Future', 'futures.Future'):
                return z3.BoolVal(fut)
            if e.func.id == 'hasattr' and isinstance(e.args[1], ast.Constant):
                a = e.args[1].value
                if a in ('done', 'cancelled', 'running', 'exception', 'result', 'cancel', 'add_done_callback'):
                    return z3.BoolVal(fut)
                if a in ('ready', 'successful', 'get', 'wait'):
                    return z3.BoolVal(not fut)
            raise Unsupported(ast.unparse(e)[:60])
        if isinstance(e, ast.Call) and isinstance(e.func, ast.Attribute) and isinstance(e.func.value, ast.Name) and self.pool_kind is not None \
                and e.func.attr in ('done', 'ready', 'cancelled', 'running', 'exception') and not e.keywords \
                and self.name(e.func.value.id) not in self.p.queues and self.name(e.func.value.id) not in self.p.threads \
                and self.name(e.func.value.id) not in self.p.sems and self.name(e.func.value.id) not in self.p.events:
            # pure observers of a job (the variable holds the task id)
            st = self.st_get(S, self.ev(e.func.value, S))
            a = e.func.attr
            if a == 'done':
                return z3.Or(st == DONE_OK, st == DONE_EXC, st == CANCELLED)
            if a == 'ready':
                return z3.Or(st == DONE_OK, st == DONE_EXC)
            if a == 'cancelled':
                return st == CANCELLED
            if a == 'running':
                return st == RUNNING
            # exception(): the exception of a finished job (kind) or None; asking an unfinished job would block - the callers translated so far
            # ask only behind done()
            return z3.If(st == DONE_EXC, S['$taskfail_kind'], IV(NONE))
        if isinstance(e, ast.Call) and isinstance(e.func, ast.Name) and e.func.id in ('sum', 'any', 'all') and len(e.args) == 1 \
                and isinstance(e.args[0], (ast.GeneratorExp, ast.ListComp)) and len(e.args[0].generators) == 1:
            # sum / any / all over the content of a queue (or its tail): unrolled over the slots
            g = e.args[0].generators[0]
            view = self.view_of(g.iter)
            if view is None or not isinstance(g.target, ast.Name):
                raise Unsupported(ast.unparse(e)[:60])
            q, off = view
            terms = []
            for j in range(off, self.QC):
                saved = self.views.get(g.target.id)
                self.views[g.target.id] = ('qelem', q, j)
                try:
                    ok = z3.And([j < S[q + '.len']] + [self.truth(self.ev(c, S)) for c in g.ifs])
                    val = self.ev(e.args[0].elt, S)
                finally:
                    if saved is None:
                        del self.views[g.target.id]
                    else:
                        self.views[g.target.id] = saved
                terms.append((ok, val))
            if e.func.id == 'sum':
                out = IV(0)
                for ok, val in terms:
                    out = out + z3.If(ok, (z3.If(val, IV(1), IV(0)) if z3.is_bool(val) else val), IV(0))
                return out
            if e.func.id == 'any':
                return z3.Or([z3.And(ok, self.truth(val)) for ok, val in terms] or [z3.BoolVal(False)])
            return z3.And([z3.Implies(ok, self.truth(val)) for ok, val in terms] or [z3.BoolVal(True)])
        if isinstance(e, ast.Call) and isinstance(e.func, ast.Name) and e.func.id == 'len' and len(e.args) == 1 and self.view_of(e.args[0]) is not None:
            q, off = self.view_of(e.args[0])
            return z3.If(S[q + '.len'] > off, S[q + '.len'] - off, IV(0))
        if isinstance(e, ast.Call) and isinstance(e.func, ast.Name) and e.func.id in self.adapters and not e.keywords:
            return self.ev_pure_adapter(e, S)
        if isinstance(e, ast.Call):   # pure queue / thread observers
            f = e.func
            if isinstance(f, ast.Attribute) and isinstance(f.value, ast.Name) and self.name(f.value.id) in self.p.threads and f.attr == 'is_alive':
                tf = self.p.threads[self.name(f.value.id)]
                return z3.And(S[f'${tf}.started'], z3.Not(z3.Or([S[f'pc.{tf}'] == l for l in self.end_of[tf]])))
            if isinstance(f, ast.Attribute) and isinstance(f.value, ast.Name) and self.name(f.value.id) in self.p.events and f.attr in ('is_set', 'isSet'):
                return S[self.name(f.value.id) + '.set']
            if isinstance(f, ast.Attribute) and isinstance(f.value, ast.Name) and self.name(f.value.id) in self.p.sems and f.attr == 'locked':
                return S[self.name(f.value.id) + '.cnt'] <= 0
            if isinstance(f, ast.Attribute) and isinstance(f.value, ast.Name) and self.name(f.value.id) in self.p.queues:
                q = self.name(f.value.id)
                if f.attr == 'qsize':
                    return S[q + '.len']
                if f.attr == 'empty':
                    return S[q + '.len'] == 0
                if f.attr == 'full':
                    return z3.And(S[q + '.cap'] > 0, S[q + '.len'] >= S[q + '.cap'])
        raise Unsupported('expression ' + ast.unparse(e)[:80])

    # ------------------------------------------------------------------ queue helpers
    def q_push(self, q, val):
        QC = self.QC
        kind = self.p.queues[q][0]

        def upd(S):
            u = {q + '.len': S[q + '.len'] + 1}
            for j in range(QC):
                u[f'{q}[{j}]'] = z3.If(S[q + '.len'] == j, val(S), S[f'{q}[{j}]'])
            return u
        return upd

    def q_pop(self, q, dst):
        QC = self.QC
        lifo = 'Lifo' in self.p.queues[q][0]

        def upd(S):
            u = {q + '.len': S[q + '.len'] - 1}
            if lifo:
                top = S[f'{q}[0]']
                for j in range(1, QC):
                    top = z3.If(S[q + '.len'] == j + 1, S[f'{q}[{j}]'], top)
                if dst is not None:
                    u[dst] = top
                return u
            for j in range(QC):
                u[f'{q}[{j}]'] = S[f'{q}[{j + 1}]'] if j + 1 < QC else S[f'{q}[{j}]']
            if dst is not None:
                u[dst] = S[f'{q}[0]']
            return u
        return upd

    # ---- thread-local lists (bounded by the queue capacity + 1), e.g. a batch drained from the queue
    def lst_declare(self, name):
        self.lists.add(name)
        self.declare(name + '.len', 'int', 0)
        for j in range(self.QC + 1):
            self.declare(f'{name}[{j}]', 'int', NOITEM)

    def lst_get(self, S, name, idx):
        e = S[f'{name}[0]']
        for j in range(1, self.QC + 1):
            e = z3.If(idx == j, S[f'{name}[{j}]'], e)
        return e

    def lst_append(self, name, val):
        def upd(S):
            u = {name + '.len': S[name + '.len'] + 1}
            for j in range(self.QC + 1):
                u[f'{name}[{j}]'] = z3.If(S[name + '.len'] == j, val(S), S[f'{name}[{j}]'])
            return u
        return upd

    def declare(self, name, typ, init):
        if name not in self.p.vars:
            self.p.vars[name] = (typ, init)

    def newtmp(self):
        self.tmp += 1
        name = f'$t{self.tmp}'
        self.declare(name, 'int', -1)
        return name

    # per-task status vector with a symbolic index
    def st_get(self, S, idx):
        e = IV(NOTSUB)
        for i in range(self.N):
            e = z3.If(idx == i, S[f'st[{i}]'], e)
        return e

    def st_set(self, S, idx, val, cond=True):
        return {f'st[{i}]': z3.If(z3.And(idx == i, cond), val, S[f'st[{i}]']) for i in range(self.N)}

    def prescan(self, stmts):
        """statements are compiled back to front, so what a name stands for must be known beforehand: thread-local lists, aliases of the
        source iterator (it = iter(source)), and names that hold a stored exception (sys.exc_info(), its unpacking, `except ... as e`, copies)"""
        nodes = [node for st in list(stmts) + [b for fd in self.adapters.values() for b in fd.body] for node in ast.walk(st)]
        for _ in range(3):       # (copies of copies)
            for node in nodes:
                if isinstance(node, ast.ExceptHandler) and node.name:
                    self.p.excvars.add(self.name(node.name))
                if isinstance(node, ast.AnnAssign) and node.value is not None:
                    node = ast.Assign(targets=[node.target], value=node.value)
                if not (isinstance(node, ast.Assign) and len(node.targets) == 1):
                    continue
                tg, v = node.targets[0], node.value
                if isinstance(tg, ast.Name):
                    if isinstance(v, ast.List):
                        self.lst_declare(self.name(tg.id))
                    elif isinstance(v, ast.Call) and ast.unparse(v) == 'sys.exc_info()':
                        self.p.excvars.add(self.name(tg.id))
                    elif isinstance(v, ast.Name) and self.name(v.id) in self.p.excvars:
                        self.p.excvars.add(self.name(tg.id))
                    elif isinstance(v, ast.Call) and isinstance(v.func, ast.Name) and v.func.id == 'iter' and len(v.args) == 1 \
                            and isinstance(v.args[0], ast.Name) and self.is_source(v.args[0].id):
                        self.p.sources.add(self.name(tg.id))
                elif isinstance(tg, ast.Tuple) and isinstance(v, ast.Name) and self.name(v.id) in self.p.excvars:
                    for x in tg.elts:
                        if isinstance(x, ast.Name):
                            self.p.excvars.add(self.name(x.id))

    # ------------------------------------------------------------------ tests with an effect (sem.acquire(...), event.wait(...))
    def is_sync_call(self, e):
        return isinstance(e, ast.Call) and isinstance(e.func, ast.Attribute) and isinstance(e.func.value, ast.Name) \
            and ((self.name(e.func.value.id) in self.p.sems and e.func.attr == 'acquire')
                 or (self.name(e.func.value.id) in self.p.events and e.func.attr == 'wait'))

    def branch(self, test, k_true, k_false, ctx, L, label, local=False):
        """entry location of `if test: goto k_true else: goto k_false`; a test that is a synchronisation call is evaluated first"""
        p, t = self.p, self.t
        if isinstance(test, ast.UnaryOp) and isinstance(test.op, ast.Not) and self.is_sync_call(test.operand):
            return self.branch(test.operand, k_false, k_true, ctx, L, label, local)
        if self.is_sync_call(test):
            def cont(name, _k):
                here = p.newloc(t, f'{label}-test@{L}')
                p.edge(t, here, k_true, guard=lambda S: S[name] != 0, label=label + '-true', line=L, local=True)
                p.edge(t, here, k_false, guard=lambda S: S[name] == 0, label=label + '-false', line=L, local=True)
                return here
            return self.flat_then(test, None, ctx, L, cont)
        here = p.newloc(t, f'{label}@{L}')
        p.edge(t, here, k_true, guard=lambda S, e=test: self.ev(e, S), label=label + '-true', line=L, local=local)
        p.edge(t, here, k_false, guard=lambda S, e=test: z3.Not(self.ev(e, S)), label=label + '-false', line=L, local=local)
        return here

    # ------------------------------------------------------------------ loops over the content of a queue
    def queue_snapshot_spec(self, it):
        """(queue, element name or None, [conditions]) for `list(q.queue)`, `q.queue`, `[v for v in q.queue if c(v)]`"""
        if isinstance(it, ast.ListComp) and len(it.generators) == 1 and isinstance(it.generators[0].target, ast.Name) \
                and isinstance(it.elt, ast.Name) and it.elt.id == it.generators[0].target.id:
            v = self.view_of(it.generators[0].iter)
            if v is not None and v[1] == 0:
                return v[0], it.generators[0].target.id, list(it.generators[0].ifs)
            return None
        v = self.view_of(it)
        if v is not None and v[1] == 0:
            return v[0], None, []
        return None

    def for_over_queue(self, s, spec, k, ctx, L):
        """for x in <snapshot of the content of a queue, optionally filtered>: the snapshot is taken in one step (list(...) / the
        comprehension run in the consumer thread without a yield in between), then the body runs once per snapshot element"""
        p, t = self.p, self.t
        q, var, conds = spec
        QC = self.QC
        self.tmp += 1
        snap = f'$snap{self.tmp}'
        self.lst_declare(snap)
        idx = self.newtmp()
        tgt = self.name(s.target.id)
        self.declare(tgt, 'int', NOITEM)
        head = p.newloc(t, f'forq@{L}')
        k_end = self.block(s.orelse, k, ctx) if s.orelse else k
        ctx2 = Ctx(ctx.k_return, lambda: k, ctx.k_raise, ctx.k_return_value, lambda: head)
        body = self.block(s.body, head, ctx2)
        p.edge(t, head, body, guard=lambda S: S[idx] < S[snap + '.len'],
               upd=lambda S: {tgt: self.lst_get(S, snap, S[idx]), idx: S[idx] + 1}, label='forq-item', line=L, local=True)
        p.edge(t, head, k_end, guard=lambda S: S[idx] >= S[snap + '.len'], label='forq-end', line=L, local=True)

        def take(S):
            inc = []
            for j in range(QC):
                c = [j < S[q + '.len']]
                if var is not None:
                    saved = self.views.get(var)
                    self.views[var] = ('qelem', q, j)
                    try:
                        c += [self.truth(self.ev(x, S)) for x in conds]
                    finally:
                        if saved is None:
                            del self.views[var]
                        else:
                            self.views[var] = saved
                inc.append(z3.And(c))
            pos = []
            acc = IV(0)
            for j in range(QC):
                pos.append(acc)
                acc = acc + z3.If(inc[j], IV(1), IV(0))
            u = {snap + '.len': acc, idx: IV(0)}
            for slot in range(QC + 1):
                val = S[f'{snap}[{slot}]']
                for j in range(QC):
                    val = z3.If(z3.And(inc[j], pos[j] == slot), S[f'{q}[{j}]'], val)
                u[f'{snap}[{slot}]'] = val
            return u
        first = p.newloc(t, f'snapshot@{L}')
        p.edge(t, first, head, upd=take, label=f'snapshot of {q}', line=L)
        return first

    # ------------------------------------------------------------------ assignment expressions in tests
    @staticmethod
    def split_walrus(test):
        """(assignment statement, test without the walrus) if the test contains exactly one `name := <call>` that is evaluated before
        anything else with an effect; None if there is no walrus"""
        found = [n for n in ast.walk(test) if isinstance(n, ast.NamedExpr)]
        if not found:
            return None
        if len(found) != 1 or not isinstance(found[0].target, ast.Name):
            raise Unsupported('several assignment expressions in one test')
        ne = found[0]
        others = [n for n in ast.walk(test) if isinstance(n, ast.Call) and n is not ne.value and not any(n is m for m in ast.walk(ne.value))]
        if others:
            raise Unsupported('assignment expression next to other calls in a test')

        class Rep(ast.NodeTransformer):
            def visit_NamedExpr(self, node):
                return ast.copy_location(ast.Name(id=node.target.id, ctx=ast.Load()), node)
        import copy as _copy
        new_test = Rep().visit(_copy.deepcopy(test))
        assign = ast.copy_location(ast.Assign(targets=[ast.Name(id=ne.target.id, ctx=ast.Store())], value=ne.value), test)
        ast.fix_missing_locations(assign)
        ast.fix_missing_locations(new_test)
        return assign, new_test

    # ------------------------------------------------------------------ statements
    def block(self, stmts, k, ctx):
        """returns entry loc of stmts, continuing at loc k"""
        for s in reversed(stmts):
            k = self.stmt(s, k, ctx)
        return k

    def stmt(self, s, k, ctx):
        p, t = self.p, self.t
        L = getattr(s, 'lineno', 0)
        if isinstance(s, (ast.Pass, ast.Nonlocal, ast.Global, ast.FunctionDef, ast.Import, ast.ImportFrom, ast.Delete)):
            return k        # (del of a local name: object lifetimes are not modelled)
        if isinstance(s, ast.Expr) and is_noop_call(s.value):
            return k
        if isinstance(s, ast.AnnAssign):
            if s.value is None:
                return k
            s2 = ast.copy_location(ast.Assign(targets=[s.target], value=s.value), s)
            return self.stmt(s2, k, ctx)
        if isinstance(s, ast.Assign) and len(s.targets) == 1 and isinstance(s.targets[0], ast.Attribute) and isinstance(s.targets[0].value, ast.Name) \
                and self.name(s.targets[0].value.id) in p.threads and s.targets[0].attr in ('daemon', 'name'):
            return k        # thread.daemon / thread.name: no effect on anything modelled here (interpreter exit is outside)
        if isinstance(s, ast.Assign) and len(s.targets) == 1 and isinstance(s.targets[0], ast.Tuple) and isinstance(s.value, ast.Name) \
                and self.name(s.value.id) in p.excvars:
            # exc_type, exc_value, exc_traceback = exc_info: all three stand for the stored exception kind
            src = self.name(s.value.id)
            names = [self.name(x.id) for x in s.targets[0].elts if isinstance(x, ast.Name)]
            if len(names) != len(s.targets[0].elts):
                raise Unsupported(ast.unparse(s)[:80])
            here = p.newloc(t, f'unpack@{L}')
            for nme in names:
                self.declare(nme, 'int', NONE)
                p.excvars.add(nme)
            p.edge(t, here, k, upd=lambda S: {nme: S[src] for nme in names}, label='unpack exc_info', line=L)
            return here
        if isinstance(s, ast.Expr) and isinstance(s.value, ast.Constant):
            return k        # docstring
        if isinstance(s, (ast.If, ast.While)):
            w = self.split_walrus(s.test)
            if w is not None:
                assign, new_test = w
                if isinstance(s, ast.If):
                    s2 = ast.copy_location(ast.If(test=new_test, body=s.body, orelse=s.orelse), s)
                    s2._same_line = True          # the test continues the source line of the assignment: no line event of its own
                    return self.block([assign, s2], k, ctx)
                if s.orelse:
                    raise Unsupported('while-else with an assignment expression')
                # while (x := f()) <cmp> y: body   ==   while True: x = f(); if not (x <cmp> y): break; body
                brk = ast.copy_location(ast.If(test=ast.UnaryOp(op=ast.Not(), operand=new_test), body=[ast.copy_location(ast.Break(), s)], orelse=[]), s)
                brk._same_line = True
                s2 = ast.copy_location(ast.While(test=ast.Constant(value=True), body=[assign, brk] + list(s.body), orelse=[]), s)
                ast.fix_missing_locations(s2)
                return self.stmt(s2, k, ctx)
        if isinstance(s, ast.If):
            a = self.block(s.body, k, ctx)
            b = self.block(s.orelse, k, ctx)
            return self.branch(s.test, a, b, ctx, L, 'if', local=getattr(s, '_same_line', False))
        if isinstance(s, ast.While):
            here = p.newloc(t, f'while@{L}')
            k_end = self.block(s.orelse, k, ctx) if s.orelse else k      # else: runs when the test fails, not after break
            ctx2 = Ctx(ctx.k_return, lambda: k, ctx.k_raise, ctx.k_return_value, lambda: here)
            body = self.block(s.body, here, ctx2)
            if isinstance(s.test, ast.Constant) and s.test.value in (True, 1):
                p.edge(t, here, body, label='while-true', line=L)
            elif self.is_sync_call(s.test) or (isinstance(s.test, ast.UnaryOp) and isinstance(s.test.op, ast.Not) and self.is_sync_call(s.test.operand)):
                p.edge(t, here, self.branch(s.test, body, k_end, ctx, L, 'while'), label='while-head', line=L, local=True)
            else:
                p.edge(t, here, body, guard=lambda S, e=s.test: self.ev(e, S), label='while-t', line=L)
                p.edge(t, here, k_end, guard=lambda S, e=s.test: z3.Not(self.ev(e, S)), label='while-f', line=L)
            return here
        if isinstance(s, ast.For):
            it = s.iter
            qsnap = self.queue_snapshot_spec(it)
            if qsnap is not None and isinstance(s.target, ast.Name):
                return self.for_over_queue(s, qsnap, k, ctx, L)
            if isinstance(it, ast.Call) and isinstance(it.func, ast.Name) and it.func.id == 'iter' and len(it.args) == 1 and not it.keywords:
                it = it.args[0]           # for x in iter(source)
            if not (isinstance(it, ast.Name) and self.is_source(it.id) and isinstance(s.target, ast.Name)):
                raise Unsupported('for over ' + ast.unparse(s.iter)[:60])
            here = p.newloc(t, f'for@{L}')
            tgt = self.name(s.target.id)
            self.declare(tgt, 'int', NOITEM)
            k_end = self.block(s.orelse, k, ctx) if s.orelse else k      # else: runs on exhaustion, not after break
            ctx2 = Ctx(ctx.k_return, lambda: k, ctx.k_raise, ctx.k_return_value, lambda: here)
            body = self.block(s.body, here, ctx2)
            # next(source): item / StopIteration / raises
            p.edge(t, here, body, guard=lambda S: z3.And(S['$pulled'] != S['$fail_at'], S['$pulled'] < S['$n']),
                   upd=lambda S: {tgt: S['$pulled'], '$pulled': S['$pulled'] + 1}, label='next-item', line=L)
            p.edge(t, here, k_end, guard=lambda S: z3.And(S['$pulled'] != S['$fail_at'], S['$pulled'] >= S['$n']), label='next-stop', line=L)
            for kind in USER_KINDS:
                p.edge(t, here, ctx.k_raise(kind), guard=lambda S, kind=kind: z3.And(S['$pulled'] == S['$fail_at'], S['$fail_kind'] == kind),
                       upd=lambda S, kind=kind: {'$raised': IV(kind), '$src_failed': z3.BoolVal(True)}, label=f'next-raise-{KNAME[kind]}', line=L)
            return here
        if isinstance(s, ast.Break):
            return ctx.k_break()
        if isinstance(s, ast.Continue):
            if ctx.k_continue is None:
                raise Unsupported('continue outside loop')
            return ctx.k_continue()
        if isinstance(s, ast.Return):
            if s.value is not None:
                if ctx.k_return_value is None:
                    raise Unsupported('return value')
                return self.flat_then(s.value, k, ctx, L, lambda name, k2: ctx.k_return_value(name))
            return ctx.k_return()
        if isinstance(s, ast.Try):
            return self.try_(s, k, ctx)
        if isinstance(s, ast.With):
            if len(s.items) != 1:
                raise Unsupported('with (several items)')
            item = s.items[0]
            if isinstance(item.context_expr, ast.Call) and ast.unparse(item.context_expr.func) in ('contextlib.suppress', 'suppress') \
                    and item.optional_vars is None and item.context_expr.args:
                # with contextlib.suppress(T1, T2): body   ==   try: body / except (T1, T2): pass
                types = item.context_expr.args
                typ = types[0] if len(types) == 1 else ast.Tuple(elts=list(types), ctx=ast.Load())
                h = ast.ExceptHandler(type=typ, name=None, body=[ast.Pass()])
                tr = ast.Try(body=s.body, handlers=[h], orelse=[], finalbody=[])
                ast.copy_location(tr, s)
                ast.fix_missing_locations(tr)
                return self.try_(tr, k, ctx)
            if isinstance(item.context_expr, ast.Name) and self.name(item.context_expr.id) in p.sems and item.optional_vars is None:
                # with lock: body   ==   lock.acquire(); try: body / finally: lock.release()
                nm = item.context_expr.id
                acq = ast.parse(f'{nm}.acquire()').body[0]
                rel = ast.parse(f'{nm}.release()').body[0]
                tr = ast.Try(body=s.body, handlers=[], orelse=[], finalbody=[rel])
                for x in (acq, rel, tr):
                    ast.copy_location(x, s)
                    ast.fix_missing_locations(x)
                return self.stmt(acq, self.try_(tr, k, ctx), ctx)
            if isinstance(item.context_expr, ast.Call) and ast.unparse(item.context_expr.func) in ('contextlib.ExitStack', 'ExitStack') \
                    and isinstance(item.optional_vars, ast.Name) and s.body:
                # with ExitStack() as stack: x = stack.enter_context(CM); rest   ==   with CM as x: rest   (one context, entered first)
                st, first = item.optional_vars.id, s.body[0]
                uses = [n for b in s.body[1:] for n in ast.walk(b) if isinstance(n, ast.Name) and n.id == st]
                if isinstance(first, ast.Assign) and len(first.targets) == 1 and isinstance(first.targets[0], ast.Name) and isinstance(first.value, ast.Call) \
                        and ast.unparse(first.value.func) == f'{st}.enter_context' and len(first.value.args) == 1 and not uses:
                    w2 = ast.With(items=[ast.withitem(context_expr=first.value.args[0], optional_vars=ast.Name(id=first.targets[0].id, ctx=ast.Store()))],
                                  body=s.body[1:] or [ast.Pass()])
                    ast.copy_location(w2, s)
                    ast.fix_missing_locations(w2)
                    return self.stmt(w2, k, ctx)
                raise Unsupported('with ExitStack (only a single enter_context as the first statement is translated)')
            if not (isinstance(item.context_expr, ast.Call) and ast.unparse(item.context_expr.func) == 'PoolExecutor'
                    and isinstance(item.optional_vars, ast.Name)):
                raise Unsupported('with ' + ast.unparse(item.context_expr)[:60])
            self.executor_name = item.optional_vars.id
            # __exit__ on every continuation == try/finally with a blocking exit step
            exit_stmt = ast.parse(f'{self.executor_name}.__exit__()').body[0]
            ast.copy_location(exit_stmt, s)
            tr = ast.Try(body=s.body, handlers=[], orelse=[], finalbody=[exit_stmt])
            ast.copy_location(tr, s)
            ast.fix_missing_locations(tr)
            return self.try_(tr, k, ctx)
        if isinstance(s, ast.Raise):
            if s.exc is None:
                if not self.handling:
                    raise Unsupported('bare raise outside handler')
                return ctx.k_raise(self.handling[-1])
            src = ast.unparse(s.exc)
            # raise <stored exception>: exc_info[1] / exc_info[1].with_traceback(exc_info[2]) / exc_value / exc_value.with_traceback(tb) /
            # a name bound by `except ... as name` (or copied from one)
            ex = s.exc
            if isinstance(ex, ast.Call) and isinstance(ex.func, ast.Attribute) and ex.func.attr == 'with_traceback':
                ex = ex.func.value
            if isinstance(ex, ast.Subscript) and isinstance(ex.slice, ast.Constant) and ex.slice.value == 1:
                ex = ex.value
            if isinstance(ex, ast.Name) and self.name(ex.id) in p.excvars:
                var = self.name(ex.id)
                here = p.newloc(t, f'raise@{L}')
                for kind in KNAME:
                    p.edge(t, here, ctx.k_raise(kind), guard=lambda S, kind=kind: S[var] == kind, label='reraise', line=L)
                return here
            raise Unsupported('raise ' + src[:60])
        if isinstance(s, ast.Assert):
            here = p.newloc(t, f'assert@{L}')
            p.edge(t, here, k, guard=lambda S, e=s.test: self.ev(e, S), label='assert-ok', line=L)
            p.edge(t, here, ctx.k_raise(UEXC), guard=lambda S, e=s.test: z3.Not(self.ev(e, S)), label='assert-fail', line=L)
            return here
        if isinstance(s, ast.Assign) and len(s.targets) == 1 and isinstance(s.targets[0], ast.Name) and isinstance(s.value, ast.List):
            tgt = self.name(s.targets[0].id)
            self.lst_declare(tgt)
            return self.list_build(tgt, s.value.elts, True, k, ctx, L)
        if isinstance(s, ast.AugAssign) and isinstance(s.op, ast.Add) and isinstance(s.target, ast.Name) and self.name(s.target.id) in self.lists:
            tgt = self.name(s.target.id)
            if isinstance(s.value, ast.List):
                return self.list_build(tgt, s.value.elts, False, k, ctx, L)
            if isinstance(s.value, ast.ListComp):
                return self.list_comp_extend(tgt, s.value, k, ctx, L)
            raise Unsupported('list += ' + ast.unparse(s.value)[:40])
        if isinstance(s, ast.Expr) and isinstance(s.value, ast.YieldFrom):
            return self.yield_from(s.value.value, k, ctx, L)
        if isinstance(s, ast.Assign) and len(s.targets) == 1 and isinstance(s.targets[0], ast.Name):
            return self.assign(self.name(s.targets[0].id), s.value, k, ctx, L)
        if isinstance(s, ast.Expr):
            if isinstance(s.value, ast.Yield):
                return self.flat_then(s.value.value, k, ctx, L, lambda name, k2: self.yield_(name, k2, ctx, L))
            return self.assign(None, s.value, k, ctx, L)
        raise Unsupported(ast.unparse(s)[:80])

    # ------------------------------------------------------------------ local lists
    def list_build(self, tgt, elts, reset, k, ctx, L):
        """tgt = [e0, e1, ...] (reset) or tgt += [e0, ...]; elements are evaluated left to right"""
        p, t = self.p, self.t
        entry = k
        for e in reversed(elts):
            nxt = entry

            def cont(nm, k2, nxt=nxt):
                here = p.newloc(t, f'{tgt}.append@{L}')
                p.edge(t, here, nxt, upd=self.lst_append(tgt, (lambda S, nm=nm: S[nm] if nm in self.p.vars else self.ev(ast.Name(id=nm), S))),
                       label=f'{tgt}.append', line=L, local=True)
                return here
            entry = self.flat_then(e, None, ctx, L, cont)
        if reset:
            here = p.newloc(t, f'{tgt}=[]@{L}')
            p.edge(t, here, entry, upd=lambda S: {tgt + '.len': IV(0)}, label=f'{tgt}=[]', line=L, local=bool(elts))
            return here
        return entry

    def list_comp_extend(self, tgt, comp, k, ctx, L):
        """tgt += [<elt> for _ in range(<expr>)]: range() is evaluated once, then <elt> is evaluated that many times"""
        p, t = self.p, self.t
        if len(comp.generators) != 1 or comp.generators[0].ifs or not isinstance(comp.generators[0].iter, ast.Call) \
                or ast.unparse(comp.generators[0].iter.func) != 'range' or len(comp.generators[0].iter.args) != 1:
            raise Unsupported('list comprehension ' + ast.unparse(comp)[:60])
        cnt = self.newtmp()
        head = p.newloc(t, f'comp@{L}')

        def cont(nm, k2):
            here = p.newloc(t, f'{tgt}.append@{L}')
            p.edge(t, here, head, upd=lambda S: dict(self.lst_append(tgt, lambda S2: S2[nm])(S), **{cnt: S[cnt] - 1}), label=f'{tgt}.append', line=L, local=True)
            return here
        body = self.flat_then(comp.elt, None, ctx, L, cont)
        p.edge(t, head, body, guard=lambda S: S[cnt] > 0, label='comp-next', line=L, local=True)
        p.edge(t, head, k, guard=lambda S: S[cnt] <= 0, label='comp-end', line=L, local=True)
        n_expr = comp.generators[0].iter.args[0]
        first = p.newloc(t, f'range@{L}')
        p.edge(t, first, head, upd=lambda S: {cnt: self.ev(n_expr, S)}, label='range()', line=L)
        return first

    def yield_from(self, e, k, ctx, L):
        """yield from <list> | yield from <list>[:-1]"""
        p, t = self.p, self.t
        drop = 0
        if isinstance(e, ast.Subscript) and isinstance(e.slice, ast.Slice) and e.slice.lower is None and e.slice.step is None \
                and isinstance(e.slice.upper, ast.UnaryOp) and isinstance(e.slice.upper.op, ast.USub) and isinstance(e.slice.upper.operand, ast.Constant):
            drop = e.slice.upper.operand.value
            e = e.value
        if isinstance(e, ast.Call) and isinstance(e.func, ast.Name) and e.func.id in self.adapters and drop == 0:
            # yield from <nested generator function>(names): its body is inlined; its yields are yields of the enclosing generator, a return
            # ends the delegation, exceptions and GeneratorExit pass through its try blocks exactly as they would through the delegation
            fd = self.adapters[e.func.id]
            params = [a.arg for a in fd.args.args]
            if fd.args.vararg or fd.args.kwarg or fd.args.kwonlyargs or fd.args.defaults or e.keywords or len(e.args) != len(params) \
                    or any(not isinstance(a, ast.Name) for a in e.args):
                raise Unsupported('yield from ' + ast.unparse(e)[:60])
            old = self.subst
            self.subst = dict(old)
            self.subst.update({prm: self.name(a.id) for prm, a in zip(params, e.args)})
            ctx2 = Ctx(lambda: k, _no_loop, ctx.k_raise, (lambda name: k), None)
            entry = self.block(fd.body, k, ctx2)
            self.subst = old
            return entry
        if not (isinstance(e, ast.Name) and self.name(e.id) in self.lists):
            raise Unsupported('yield from ' + ast.unparse(e)[:40])
        lst = self.name(e.id)
        idx = self.newtmp()
        head = p.newloc(t, f'yieldfrom@{L}')
        inc = p.newloc(t, f'yieldfrom-inc@{L}')
        p.edge(t, inc, head, upd=lambda S: {idx: S[idx] + 1}, label='yieldfrom-next', line=L, local=True)
        y = self.yield_(lambda S: self.lst_get(S, lst, S[idx]), inc, ctx, L)
        for e2 in p.edges:
            if e2.src == y and e2.thread == t:
                e2.local = True
        p.edge(t, head, y, guard=lambda S: S[idx] < S[lst + '.len'] - drop, label='yieldfrom-item', line=L, local=True)
        p.edge(t, head, k, guard=lambda S: S[idx] >= S[lst + '.len'] - drop, label='yieldfrom-end', line=L, local=True)
        first = p.newloc(t, f'yieldfrom-init@{L}')
        p.edge(t, first, head, upd=lambda S: {idx: IV(0)}, label='yield from', line=L)
        return first

    # ------------------------------------------------------------------ yield
    def yield_(self, name, k, ctx, L):
        p, t = self.p, self.t
        here = p.newloc(t, f'yield@{L}')
        val = (lambda S: S[name]) if isinstance(name, str) else name

        def bad(S):
            return z3.Or(S['$bad_order'], val(S) != S['$delivered'])
        p.edge(t, here, k, guard=lambda S: S['$delivered'] + 1 != S['$close_at'],
               upd=lambda S: {'$delivered': S['$delivered'] + 1, '$bad_order': bad(S)}, label='yield-continue', line=L)
        p.edge(t, here, ctx.k_raise(GENEXIT), guard=lambda S: S['$delivered'] + 1 == S['$close_at'],
               upd=lambda S: {'$delivered': S['$delivered'] + 1, '$closed': z3.BoolVal(True), '$bad_order': bad(S)},
               label='yield-close', line=L)
        return here

    # ------------------------------------------------------------------ assignment / simple calls
    def assign(self, tgt, v, k, ctx, L):
        p, t = self.p, self.t
        src = ast.unparse(v)
        if isinstance(v, ast.Yield):
            if tgt is not None:
                raise Unsupported('x = yield')
            return self.flat_then(v.value, k, ctx, L, lambda name, k2: self.yield_(name, k2, ctx, L))
        if isinstance(v, ast.Call) and not (isinstance(v.func, ast.Name) and v.func.id in ('max', 'min')):
            f = v.func
            if src == 'sys.exc_info()':
                if tgt is None:
                    return k
                here = p.newloc(t, f'exc_info@{L}')
                self.declare(tgt, 'int', NONE)
                p.excvars.add(tgt)
                p.edge(t, here, k, upd=lambda S: {tgt: S['$raised']}, label='exc_info', line=L)
                return here
            if isinstance(f, ast.Name) and f.id == 'iter' and len(v.args) == 1 and not v.keywords and isinstance(v.args[0], ast.Name) \
                    and self.is_source(v.args[0].id) and tgt is not None:
                # it = iter(source): an alias of the source iterator (iter() of an iterator is the iterator; the implicit iter() of the
                # for loop it replaces is not a step of its own either)
                p.sources.add(tgt)
                return k
            if isinstance(f, ast.Name) and f.id == 'next' and v.args and isinstance(v.args[0], ast.Name) and self.is_source(v.args[0].id) \
                    and not v.keywords and tgt is not None:
                if len(v.args) == 1:
                    # (a fresh location that raises StopIteration; the handler decides where it goes)
                    stop = p.newloc(t, f'stop@{L}')
                    p.edge(t, stop, ctx.k_raise(STOPITER), upd=lambda S: {'$raised': IV(STOPITER)}, label='StopIteration', line=L, local=True)
                    return self.next_source(tgt, k, stop, ctx, L)
                if len(v.args) == 2 and isinstance(v.args[1], (ast.Constant, ast.Name)):
                    dflt = p.newloc(t, f'default@{L}')
                    p.edge(t, dflt, k, upd=lambda S, d=v.args[1]: {tgt: self.ev(d, S)}, label='next-default', line=L, local=True)
                    return self.next_source(tgt, k, dflt, ctx, L)
            if isinstance(f, ast.Attribute) and isinstance(f.value, ast.Name) and self.name(f.value.id) in p.threads:
                obj, meth = self.name(f.value.id), f.attr
                tf = p.threads[obj]
                here = p.newloc(t, f'{src[:30]}@{L}')
                if meth == 'start':
                    p.edge(t, here, k, upd=lambda S: {f'${tf}.started': z3.BoolVal(True)}, label='thread.start', line=L)
                    return here
                if meth == 'join':
                    p.edge(t, here, k, guard=lambda S: z3.Or([S[f'pc.{tf}'] == l for l in self.end_of[tf]]), label='thread.join', line=L)
                    return here
                raise Unsupported('thread.' + meth)
            # everything else: flatten (queue ops, adapters, futures, executor)
            if tgt is not None:
                self.declare(tgt, 'int', NOITEM)

                def cont(name, k2):
                    if name is None:
                        return k2
                    here = p.newloc(t, f'{tgt}=@{L}')
                    p.edge(t, here, k2, upd=lambda S: {tgt: S[name]}, label=f'{tgt}=', line=L, local=True)
                    return here
                return self.flat_then(v, k, ctx, L, cont, direct_target=tgt)
            return self.flat_then(v, k, ctx, L, lambda name, k2: k2)
        # plain value
        if tgt is None:
            if isinstance(v, (ast.Constant, ast.Name)):
                return k      # an expression statement without effect
            raise Unsupported(src[:60])
        here = p.newloc(t, f'{src[:30]}@{L}')
        if isinstance(v, ast.Name) and self.name(v.id) in p.excvars:
            p.excvars.add(tgt)          # err = e: a copy of a stored exception
        if isinstance(v, ast.Constant) and isinstance(v.value, bool):
            self.declare(tgt, 'bool', v.value)
        elif self.is_bool_expr(v):
            self.declare(tgt, 'bool', False)
        else:
            self.declare(tgt, 'int', NONE)
        p.edge(t, here, k, upd=lambda S: {tgt: self.ev(v, S)}, label=f'{tgt}=', line=L)
        return here

    # ------------------------------------------------------------------ expression flattening
    def flat_then(self, e, k, ctx, L, cont, direct_target=None):
        """evaluate `e` (calls, in Python evaluation order) into a temp, then continue with cont(tempname, k)"""
        p, t = self.p, self.t
        if isinstance(e, ast.Name):
            return cont(self.name(e.id), k)
        if not isinstance(e, ast.Call):
            raise Unsupported('flatten ' + ast.unparse(e)[:60])
        f = e.func
        # user-level adapter (submit / result / terminate ...): inline
        if isinstance(f, ast.Name) and f.id in self.adapters:
            fd = self.adapters[f.id]
            if fd.args.kwonlyargs or fd.args.defaults:
                raise Unsupported('adapter signature ' + f.id)
            params = [a.arg for a in fd.args.args]
            vararg = fd.args.vararg.arg if fd.args.vararg else None
            kwarg = fd.args.kwarg.arg if fd.args.kwarg else None
            actual = []
            for a in e.args:
                if isinstance(a, ast.Starred):
                    if not (isinstance(a.value, ast.Name) and a.value.id in ('args',)):
                        raise Unsupported('starred ' + ast.unparse(a))
                    continue      # *args of lazy_parallel_map: concretely [] (partial evaluation of the prologue)
                actual.append(a)
            for kw in e.keywords:
                if not (kw.arg is None and isinstance(kw.value, ast.Name) and kw.value.id == 'kwargs'):
                    raise Unsupported('keyword ' + ast.unparse(kw.value))
            res = self.newtmp()
            n0 = len(p.edges)
            after = cont(res, k)
            # the commands that resume the enclosing source line after the inlined call have no line event of their own
            for e2 in p.edges[n0:]:
                e2.local = True
            names = []

            def body_entry(k_after):
                old, oldva = self.subst, self.varargs
                self.subst = dict(old)
                self.subst.update(dict(zip(params, names)))
                self.varargs = dict(oldva)
                if vararg:
                    self.varargs[vararg] = names[len(params):]
                if kwarg:
                    self.varargs[kwarg] = []

                def k_return_value(name):
                    here = p.newloc(t, f'ret@{L}')
                    p.edge(t, here, k_after, upd=lambda S: {res: S[name]}, label=f'{f.id}-ret', line=L, local=True)
                    return here
                ctx2 = Ctx(lambda: k_after, _no_loop, ctx.k_raise, k_return_value, None)
                entry = self.block(fd.body, k_after, ctx2)
                self.subst, self.varargs = old, oldva
                return entry

            def eval_args(i):
                if i == len(actual):
                    return body_entry(after)
                a = actual[i]
                if isinstance(a, ast.Name):
                    names.append(self.name(a.id))
                    return eval_args(i + 1)
                return self.flat_then(a, None, ctx, L, lambda nm, _k: (names.append(nm), eval_args(i + 1))[1])
            return eval_args(0)
        if isinstance(f, ast.Attribute) and f.attr == 'remove' and self.view_of(f.value) is not None and self.view_of(f.value)[1] == 0 \
                and len(e.args) == 1 and isinstance(e.args[0], ast.Name) and not e.keywords:
            # q.queue.remove(x): the first slot that holds x is taken out, the later ones move up
            q = self.view_of(f.value)[0]
            x = e.args[0]
            QC = self.QC
            here = p.newloc(t, f'{q}.queue.remove@{L}')

            def upd(S):
                xv = self.ev(x, S)
                hit, seen = [], z3.BoolVal(False)
                for j in range(QC):
                    m = z3.And(j < S[q + '.len'], S[f'{q}[{j}]'] == xv, z3.Not(seen))
                    hit.append(m)
                    seen = z3.Or(seen, m)
                u = {q + '.len': z3.If(seen, S[q + '.len'] - 1, S[q + '.len'])}
                after = z3.BoolVal(False)
                for j in range(QC):
                    after = z3.Or(after, hit[j])
                    nxt = S[f'{q}[{j + 1}]'] if j + 1 < QC else S[f'{q}[{j}]']
                    u[f'{q}[{j}]'] = z3.If(after, nxt, S[f'{q}[{j}]'])
                return u
            p.edge(t, here, cont(None, k), upd=upd, label=f'{q}.queue.remove', line=L)
            return here
        if isinstance(f, ast.Attribute):
            meth = f.attr
            objname = self.name(f.value.id) if isinstance(f.value, ast.Name) else None
            fsrc = ast.unparse(f)
            if fsrc == 'dill.dumps':
                # payload = dill.dumps((func, args, kwargs)): the payload carries the task argument (round-trip contract of dill)
                tup = e.args[0]
                if not isinstance(tup, ast.Tuple):
                    raise Unsupported('dill.dumps of ' + ast.unparse(tup))
                argsname = [self.name(x.id) for x in tup.elts if isinstance(x, ast.Name)]
                va = [v for nme in argsname for v in self.varargs.get(nme, [])]
                if len(va) != 1:
                    raise Unsupported('dill payload without exactly one task argument')
                return cont(va[0], k)
            if objname in self.p.sems:
                cnt = objname + '.cnt'
                if meth == 'release' and not e.keywords and len(e.args) <= 1:
                    nrel = 1
                    if e.args:
                        if not (isinstance(e.args[0], ast.Constant) and isinstance(e.args[0].value, int)):
                            raise Unsupported('semaphore.release(n) with a non-constant n')
                        nrel = e.args[0].value
                    here = p.newloc(t, f'{objname}.release@{L}')
                    p.edge(t, here, cont(None, k), upd=lambda S: {cnt: S[cnt] + nrel}, label=f'{objname}.release', line=L)
                    return here
                if meth == 'acquire':
                    blk = const_kw(e, 'blocking', 0, True)
                    tmo = const_kw(e, 'timeout', 1, None)
                    timed = (not blk) or (tmo is not None and tmo != -1)
                    res = self.newtmp()
                    after = cont(res, k)
                    here = p.newloc(t, f'{objname}.acquire@{L}')
                    p.edge(t, here, after, guard=lambda S: S[cnt] > 0, upd=lambda S: {cnt: S[cnt] - 1, res: IV(1)}, label=f'{objname}.acquire', line=L)
                    if timed:
                        # a timed / non-blocking acquire gives up whenever no permit is available at that step (time is arbitrary)
                        p.edge(t, here, after, guard=lambda S: S[cnt] <= 0, upd=lambda S: {res: IV(0)}, label=f'{objname}.acquire-timeout', line=L)
                    return here
                raise Unsupported('semaphore.' + meth)
            if objname in self.p.events:
                flag = objname + '.set'
                if meth in ('set', 'clear') and not e.args and not e.keywords:
                    here = p.newloc(t, f'{objname}.{meth}@{L}')
                    p.edge(t, here, cont(None, k), upd=lambda S: {flag: z3.BoolVal(meth == 'set')}, label=f'{objname}.{meth}', line=L)
                    return here
                if meth == 'wait':
                    tmo = const_kw(e, 'timeout', 0, None)
                    res = self.newtmp()
                    after = cont(res, k)
                    here = p.newloc(t, f'{objname}.wait@{L}')
                    p.edge(t, here, after, guard=lambda S: S[flag], upd=lambda S: {res: IV(1)}, label=f'{objname}.wait', line=L)
                    if tmo is not None:
                        p.edge(t, here, after, guard=lambda S: z3.Not(S[flag]), upd=lambda S: {res: IV(0)}, label=f'{objname}.wait-timeout', line=L)
                    return here
                raise Unsupported('event.' + meth)
            if objname in self.p.queues:
                # block / timeout (keyword or positional) must be constants.  block=True, timeout=None is the default blocking call.
                # A timed get raises Empty if nothing arrives in time: time is an arbitrary environment quantity, so the timeout may
                # fire whenever the queue is empty at that step (same as a non-blocking get).
                if meth in ('put', 'get'):
                    off = 1 if meth == 'put' else 0
                    blk = const_kw(e, 'block', off, True)
                    tmo = const_kw(e, 'timeout', off + 1, None)
                    nb = (not blk) or tmo is not None
                else:
                    nb = False
                if meth in ('put', 'put_nowait'):
                    if nb or meth == 'put_nowait':
                        raise Unsupported('queue.put with block=False / timeout (queue.Full is not modelled)')
                    after = cont(None, k)
                    return self.flat_then(e.args[0], None, ctx, L, lambda nm, _k: self._put(objname, nm, after, L))
                if meth in ('get', 'get_nowait'):
                    res = self.newtmp()
                    after = cont(res, k)
                    here = p.newloc(t, f'{objname}.{meth}@{L}')
                    p.edge(t, here, after, guard=lambda S: S[objname + '.len'] > 0, upd=self.q_pop(objname, res), label=f'{objname}.{meth}', line=L)
                    if nb or meth == 'get_nowait':
                        p.edge(t, here, ctx.k_raise(EMPTY), guard=lambda S: S[objname + '.len'] <= 0,
                               upd=lambda S: {'$raised': IV(EMPTY)}, label=f'{objname}.{meth}-Empty', line=L)
                    return here
                raise Unsupported('queue.' + meth)
            ex = getattr(self, 'executor_name', None)
            if objname is not None and ex is not None and (objname == ex or self.subst.get(objname) == ex or objname in self.executor_aliases()):
                return self.executor_call(meth, e, k, ctx, L, cont)
            if meth in ('result', 'get', 'cancel') and self.pool_kind is not None:
                def with_recv(rname, _k):
                    res = self.newtmp()
                    after = cont(res, k)
                    here = p.newloc(t, f'fut.{meth}@{L}')
                    if meth in ('result', 'get'):
                        p.edge(t, here, after, guard=lambda S: self.st_get(S, S[rname]) == DONE_OK, upd=lambda S: {res: S[rname]},
                               label='future.result', line=L)
                        for kind in USER_KINDS:
                            p.edge(t, here, ctx.k_raise(kind),
                                   guard=lambda S, kind=kind: z3.And(self.st_get(S, S[rname]) == DONE_EXC, S['$taskfail_kind'] == kind),
                                   upd=lambda S, kind=kind: {'$raised': IV(kind)}, label=f'future.result-raise-{KNAME[kind]}', line=L)
                    else:
                        p.edge(t, here, after, upd=lambda S: self.st_set(S, S[rname], IV(CANCELLED), self.st_get(S, S[rname]) == PENDING),
                               label='future.cancel', line=L)
                    return here
                return self.flat_then(f.value, None, ctx, L, with_recv)
        raise Unsupported('call ' + ast.unparse(e)[:60])

    def executor_aliases(self):
        ex = getattr(self, 'executor_name', None)
        return {k for k, v in self.subst.items() if v == ex}

    def executor_call(self, meth, e, k, ctx, L, cont):
        p, t = self.p, self.t
        if meth in ('submit', 'apply_async', 'apipe'):
            # task id == submission index; the argument must be the element pulled from the source
            res = self.newtmp()
            after = cont(res, k)
            here = p.newloc(t, f'submit@{L}')
            flat = []
            for a in e.args:
                if isinstance(a, ast.Starred) and isinstance(a.value, ast.Name):
                    flat += self.varargs.get(a.value.id, [])
                elif isinstance(a, ast.Name):
                    nm = a.id
                    if nm in self.varargs:          # apply_async(func, args, kwargs): args is the vararg tuple
                        flat += self.varargs[nm]
                    else:
                        flat.append(self.name(nm))
                else:
                    raise Unsupported('submit argument ' + ast.unparse(a))
            # flat = [func, taskarg]  (for dill: [_dill_mp_helper, payload])
            cand = [x for x in flat if x not in ('function', '_dill_mp_helper')]
            for x in cand:
                self.declare(x, 'int', NOITEM)
            if len(cand) != 1:
                raise Unsupported(f'cannot identify the task argument of {ast.unparse(e)[:60]}: {flat}')
            argname = cand[0]

            def upd(S):
                u = {res: S['$sub'], '$sub': S['$sub'] + 1, '$bad_order': z3.Or(S['$bad_order'], S[argname] != S['$sub'])}
                u.update(self.st_set(S, S['$sub'], IV(PENDING)))
                return u
            p.edge(t, here, after, upd=upd, label='executor.submit', line=L)
            return here
        if meth == '__exit__':
            here = p.newloc(t, f'exit@{L}')
            N = self.N
            if self.pool_kind in ('thread', 'process'):
                # shutdown(wait=True): returns when nothing is pending or running (cancelled futures are dropped); a process pool that
                # was shut down with wait=False before returns at once ($detached)
                p.edge(t, here, cont(None, k),
                       guard=lambda S: z3.Or(S['$detached'], z3.And([z3.And(S[f'st[{i}]'] != PENDING, S[f'st[{i}]'] != RUNNING) for i in range(N)])),
                       label='executor.__exit__', line=L)
            elif self.pool_kind == 'mpool':
                # multiprocessing.Pool.__exit__ == terminate(): outstanding work is discarded, running work killed
                p.edge(t, here, cont(None, k), upd=lambda S: self._kill_all(S), label='executor.__exit__', line=L)
            elif self.pool_kind == 'pathos':
                # pathos AbstractWorkerPool.__exit__ is a no-op
                p.edge(t, here, cont(None, k), label='executor.__exit__', line=L)
            else:
                raise Unsupported('pool kind ' + str(self.pool_kind))
            return here
        if meth == 'shutdown' and self.pool_kind in ('thread', 'process'):
            # concurrent.futures: shutdown(wait=True, *, cancel_futures=False)
            wait = const_kw(e, 'wait', 0, True)
            cancel = const_kw(e, 'cancel_futures', None, False)
            here = p.newloc(t, f'shutdown@{L}')
            N = self.N

            def upd(S):
                u = {}
                if cancel:
                    u.update({f'st[{i}]': z3.If(S[f'st[{i}]'] == PENDING, IV(CANCELLED), S[f'st[{i}]']) for i in range(N)})
                if not wait and self.pool_kind == 'process':
                    # ProcessPoolExecutor.shutdown(wait=False) drops its manager thread handle: a later shutdown(wait=True), also the one of
                    # __exit__, has nothing left to join and returns at once while the work goes on (CPython 3.9+)
                    u['$detached'] = z3.BoolVal(True)
                return u
            if wait:
                p.edge(t, here, cont(None, k), upd=upd,
                       guard=lambda S: z3.Or(S['$detached'], z3.And([z3.And(S[f'st[{i}]'] != PENDING, S[f'st[{i}]'] != RUNNING) for i in range(N)]))
                       if not cancel else z3.Or(S['$detached'], z3.And([S[f'st[{i}]'] != RUNNING for i in range(N)])),
                       label='executor.shutdown(wait)', line=L)
            else:
                p.edge(t, here, cont(None, k), upd=upd, label='executor.shutdown(nowait)', line=L)
            return here
        if meth == 'terminate':
            here = p.newloc(t, f'terminate@{L}')
            p.edge(t, here, cont(None, k), upd=lambda S: self._kill_all(S), label='executor.terminate', line=L)
            return here
        raise Unsupported('executor.' + meth)

    def _kill_all(self, S):
        return {f'st[{i}]': z3.If(z3.Or(S[f'st[{i}]'] == PENDING, S[f'st[{i}]'] == RUNNING), IV(KILLED), S[f'st[{i}]']) for i in range(self.N)}

    def _put(self, q, nm, after, L):
        here = self.p.newloc(self.t, f'{q}.put@{L}')
        self.p.edge(self.t, here, after, guard=lambda S: z3.Or(S[q + '.cap'] <= 0, S[q + '.len'] < S[q + '.cap']),
                    upd=self.q_push(q, lambda S: S[nm] if nm in self.p.vars else self.ev(ast.Name(id=nm), S)), label=f'{q}.put', line=L)
        return here

    # ------------------------------------------------------------------ try / except / finally
    def try_(self, s, k, ctx):
        fin = s.finalbody

        def through_finally(cont_thunk, tag):
            cont = cont_thunk()
            if not fin:
                return cont
            key = (id(s), tag, cont, tuple(sorted(self.subst.items())))
            if key not in self.memo:
                self.memo[key] = self.block(fin, cont, ctx)
            return self.memo[key]

        ctx_fin = Ctx(lambda: through_finally(ctx.k_return, 'ret'), lambda: through_finally(ctx.k_break, 'brk'),
                      lambda kind: through_finally(lambda: ctx.k_raise(kind), ('raise', kind)), None,
                      (lambda: through_finally(ctx.k_continue, 'cont')) if ctx.k_continue is not None else None)
        if ctx.k_return_value is not None:
            if fin:
                raise Unsupported('return <value> through finally')
            ctx_fin.k_return_value = ctx.k_return_value
        k_norm = through_finally(lambda: k, 'norm')
        # else: runs after the body finished without an exception; its own exceptions are not seen by the handlers, but by finally
        k_body_done = self.block(s.orelse, k_norm, ctx_fin) if s.orelse else k_norm

        def body_raise(kind):
            for h in s.handlers:
                tsrc = ast.unparse(h.type) if h.type is not None else None
                if matches(tsrc, kind):
                    key = (id(h), 'handler', k_norm, kind, tuple(sorted(self.subst.items())))
                    if key not in self.memo:
                        self.handling.append(kind)
                        entry = self.block(h.body, k_norm, ctx_fin)
                        if h.name:
                            # except T as name: the name holds the exception (its kind) inside the handler
                            nm = self.name(h.name)
                            self.declare(nm, 'int', NONE)
                            self.p.excvars.add(nm)
                            bind = self.p.newloc(self.t, f'except-as@{h.lineno}')
                            self.p.edge(self.t, bind, entry, upd=lambda S, nm=nm, kind=kind: {nm: IV(kind)}, label=f'{nm}=exc', line=h.lineno, local=True)
                            entry = bind
                        self.memo[key] = entry
                        self.handling.pop()
                    return self.memo[key]
            return ctx_fin.k_raise(kind)
        ctx_body = Ctx(ctx_fin.k_return, ctx_fin.k_break, body_raise, ctx_fin.k_return_value, ctx_fin.k_continue)
        return self.block(s.body, k_body_done, ctx_body)


def simplify_cfg(prog, entries):
    """remove unconditional no-op edges (e.g. `while True:` headers)"""
    changed = True
    while changed:
        changed = False
        for e in list(prog.edges):
            if e.guard is None and e.upd is _noupd:
                outs = [x for x in prog.edges if x.thread == e.thread and x.src == e.src]
                if len(outs) != 1 or e.src == e.dst:
                    continue
                for x in prog.edges:
                    if x.thread == e.thread and x.dst == e.src:
                        x.dst = e.dst
                if entries[e.thread]['entry'] == e.src:
                    entries[e.thread]['entry'] = e.dst
                prog.edges.remove(e)
                changed = True
