"""Controlled-schedule replay of the *real* parallel_utils functions on real threads.

Every `line` event of frames whose code lives in parallel_utils.py is a gate: the thread stops there until the
controller grants it the next step.  A BMC model (schedule = sequence of (actor, source line)) is replayed step by
step; the observed outcome (delivered examples, how the generator ended, thread liveness, event log) is returned so
that the caller can decide whether the violation the solver claims is really there.  Used (a) for every `sat`
counterexample before it is reported and (b) on every run for solver-generated witness schedules, where the real
code must follow the model location by location (translator validation).
"""
import queue
import sys
import threading
import time


class Controller:
    def __init__(self):
        self.cv = threading.Condition()
        self.at = {}            # role -> lineno where it is gated (or 'done')
        self.grant = None
        self.log = []
        self.roles = {}         # thread ident -> role
        self.free_run = False

    def role(self):
        return self.roles.get(threading.get_ident())

    def gate(self, where):
        r = self.role()
        if r is None or self.free_run:
            return
        with self.cv:
            self.at[r] = where
            self.cv.notify_all()
            while self.grant != r and not self.free_run:
                self.cv.wait(0.5)
            self.grant = None
            self.at.pop(r, None)
            self.log.append((r, where))

    def done(self, r):
        with self.cv:
            self.at[r] = 'done'
            self.cv.notify_all()

    def wait_gated(self, r, timeout=1.0):
        t0 = time.time()
        with self.cv:
            while r not in self.at:
                self.cv.wait(0.02)
                if time.time() - t0 > timeout:
                    return None
            return self.at[r]

    def release(self, r):
        with self.cv:
            self.grant = r
            self.cv.notify_all()

    def settle(self, r, timeout=0.15):
        """after a grant: wait until the thread has executed the step, i.e. sits at its next gate, is done, or is blocked
        inside a library call (then the timeout expires).  Makes the effects of consecutive steps of different threads ordered."""
        t0 = time.time()
        with self.cv:
            while self.grant == r or r not in self.at:
                self.cv.wait(0.005)
                if time.time() - t0 > timeout:
                    return False
        return True

    def release_all(self):
        with self.cv:
            self.free_run = True
            self.cv.notify_all()


class UB(BaseException):
    pass


class UE(Exception):
    pass


class UQ(queue.Empty):
    """the user's own code raises queue.Empty (kind UEMPTY)"""


def _kinds(P):
    """(fail_kind, taskfail_kind) of a model; replay files written before the kinds were generalised carry booleans"""
    fk = P.get('fail_kind', 3 if P.get('fail_base') else 2)
    tk = P.get('taskfail_kind', 3 if P.get('taskfail_base') else 2)
    return fk, tk


def _exc_class(kind):
    return {2: UE, 3: UB, 5: UQ}[kind]


def _end_name(kind):
    return {2: 'UE', 3: 'UB', 5: 'UQ'}[kind]



def _advance_to_next_modelled_line(ctl, trace, i, th):
    """after step i of thread `th`: pass its lines that carry no modelled command (try:, except X:, pass, loop headers ...) until it sits at the
    line of its next modelled step, or - if the schedule has no further step for it - until it has finished.  Such lines have no shared effect,
    so doing this eagerly only makes the real thread state equal to the model state right after the step (a thread that is finished in the model
    is finished in reality before any later step of another thread is replayed)."""
    target = 'done'
    for st in trace[i + 1:]:
        if st['actor'] == th and not st.get('local'):
            target = st['line']
            break
    guard = 0
    where = ctl.wait_gated(th, 0.2)
    while where not in (target, 'done', None) and guard < 60:
        ctl.release(th)
        guard += 1
        ctl.settle(th)
        where = ctl.wait_gated(th, 0.2)


def replay_stp(model, step_timeout=1.0):
    """model: dict(params=..., trace=[dict(actor, line, label)]) from systems.encode.decode"""
    import lazy_dataset.parallel_utils as pu
    pu_file = pu.__file__
    P = model['params']
    n, buffer_size, close_at, fail_at, fail_kind = P['n'], P['buffer_size'], P['close_at'], P['fail_at'], _kinds(P)[0]
    ctl = Controller()
    def tracer(frame, event, arg):
        # every frame of the function under analysis and of the functions nested in it (worker, helpers), whatever they are called
        qn = getattr(frame.f_code, 'co_qualname', frame.f_code.co_name)
        if frame.f_code.co_filename != pu_file or not (qn == 'single_thread_prefetch' or qn.startswith('single_thread_prefetch.')):
            return None

        def local(frame, event, arg):
            if event == 'line':
                ctl.gate(frame.f_lineno)
            return local
        return local

    events = []     # ('pull', i) / ('deliver', i) / ('closed',) / ('returned', how)

    def source():
        for i in range(n + 1):
            if i == fail_at:
                events.append(('pull-raise', i))
                raise _exc_class(fail_kind)(i)
            if i < n:
                events.append(('pull', i))
                yield i

    delivered = []
    result = {}

    def main_role():
        ctl.roles[threading.get_ident()] = '$main'
        sys.settrace(tracer)
        try:
            g = pu.single_thread_prefetch(source(), buffer_size)
            try:
                for x in g:
                    delivered.append(x)
                    events.append(('deliver', x))
                    if len(delivered) == close_at:
                        g.close()
                        events.append(('closed',))
                        break
                result['end'] = 'return'
            except BaseException as e:   # noqa
                result['end'] = type(e).__name__
        finally:
            sys.settrace(None)
            events.append(('returned', result.get('end')))
            result['worker_alive_at_return'] = any(t.is_alive() for t in spawned)
            ctl.done('$main')

    orig_thread = threading.Thread
    spawned = []

    class WThread(orig_thread):
        def __init__(self, *a, **kw):
            super().__init__(*a, **kw)
            spawned.append(self)

        def run(self):
            # the model names the thread after its target function
            role = getattr(getattr(self, '_target', None), '__name__', 'worker')
            ctl.roles[threading.get_ident()] = role
            sys.settrace(tracer)
            try:
                super().run()
            finally:
                sys.settrace(None)
                self._verif_done = True
                ctl.done(role)

        def is_alive(self):
            # "finished" in the model = the target function has returned (thread teardown is not a step)
            return super().is_alive() and not getattr(self, '_verif_done', False)

    class _ThreadingProxy:
        def __getattr__(self, name):
            return getattr(threading, name)
    proxy = _ThreadingProxy()
    proxy.Thread = WThread
    saved = pu.threading
    pu.threading = proxy
    try:
        m = orig_thread(target=main_role, daemon=True)
        m.start()
        mismatches = []
        followed = 0
        for step_i, step in enumerate(model['trace']):
            th, line = step['actor'], step['line']
            if step.get('local'):
                followed += 1      # sub-step on thread-local temporaries: no line event of its own
                continue
            where = ctl.wait_gated(th, step_timeout)
            guard = 0
            # thread-local lines without a modelled command (try:, else:, ...) are passed through
            while where not in (line, 'done', None) and guard < 60:
                ctl.release(th)
                guard += 1
                ctl.settle(th)
                where = ctl.wait_gated(th, step_timeout)
            if where != line:
                mismatches.append(dict(actor=th, wanted=line, got=where, step=followed))
                break
            ctl.release(th)
            followed += 1
            ctl.settle(th)
            _advance_to_next_modelled_line(ctl, model['trace'], step_i, th)
        # drain: let everything finish on its own; what cannot finish is blocked
        deadline = time.time() + 3.0
        while time.time() < deadline:
            busy = False
            for r in ['$main'] + sorted(x for x in set(ctl.roles.values()) if x != '$main'):
                w = ctl.wait_gated(r, timeout=0.02)
                if w not in ('done', None):
                    ctl.release(r)
                    busy = True
            roles_seen = set(ctl.roles.values())
            if all(ctl.at.get(r) == 'done' for r in roles_seen) and roles_seen:
                break
            if not busy:
                time.sleep(0.01)
        m.join(0.5)
        alive_main = m.is_alive()
        alive_workers = [t.is_alive() for t in spawned]
        out = dict(delivered=list(delivered), end=result.get('end'), mismatches=mismatches, followed=followed, steps=len(model['trace']),
                   main_alive=alive_main, workers_alive=alive_workers, worker_alive_at_return=result.get('worker_alive_at_return'),
                   events=list(events))
        # max read-ahead observed
        pulled = deliv = 0
        mx = 0
        for e in events:
            if e[0] == 'pull':
                pulled += 1
            elif e[0] == 'deliver':
                deliv += 1
            mx = max(mx, pulled - deliv)
        out['max_pulled_minus_delivered'] = mx
        # unblock whatever is left so that the process can exit
        ctl.release_all()
        return out
    finally:
        pu.threading = saved


def observed_violation(mode, model, obs):
    """does the real run show what the solver claims?  -> (bool, text)"""
    P = model['params']
    if mode == 'deadlock':
        hung = obs['main_alive'] or any(obs['workers_alive'])
        return hung, f'threads still alive after the schedule: main={obs["main_alive"]} workers={obs["workers_alive"]}'
    if mode == 'order':
        exp = list(range(len(obs['delivered'])))
        return obs['delivered'] != exp, f'delivered {obs["delivered"]}'
    if mode == 'complete':
        return obs['delivered'] != list(range(P['n'])) or obs['end'] != 'return', f'delivered {obs["delivered"]} of n={P["n"]}, ended with {obs["end"]}'
    if mode.startswith('error_position') or mode.startswith('src_error_position'):
        f = P['fail_at'] if P['fail_at'] >= 0 else P['taskfail']
        want_end = _end_name(_kinds(P)[0] if P['fail_at'] >= 0 else _kinds(P)[1])
        ok = obs['delivered'] == list(range(f)) and obs['end'] == want_end
        return not ok, f'failure at position {f}: delivered {obs["delivered"]}, generator ended with {obs["end"]} (expected {want_end})'
    if mode == 'after_return':
        return bool(obs.get('worker_alive_at_return')) or bool(obs.get('ran_after_return')), \
            f'worker alive at return={obs.get("worker_alive_at_return")} user code after return={obs.get("ran_after_return")}'
    if mode == 'readahead_pulled':
        return obs['max_pulled_minus_delivered'] > P['buffer_size'] + 2, f'max pulled-delivered {obs["max_pulled_minus_delivered"]} B={P["buffer_size"]}'
    if mode == 'readahead_started':
        return obs.get('max_started_minus_delivered', 0) > P['buffer_size'], f'max started-delivered {obs.get("max_started_minus_delivered")} B={P["buffer_size"]}'
    if mode == 'cancelled':
        return bool(obs.get('pending_at_exit')) or bool(obs.get('started_after_close')), \
            f'futures still PENDING when the consumer had stopped and the main thread stood at the executor exit: {obs.get("pending_at_exit")}; ' \
            f'tasks started after the stop completed: {obs.get("started_after_close")}'
    return False, 'no observer for ' + mode


# ----------------------------------------------------------------------------- lazy_parallel_map, thread backend
class _GatedQueue:
    """work queue of the executor: a worker thread that has taken an item waits for the controller's `start` grant
    before it claims and runs it (so `PENDING` in the model is `PENDING` in the real future)"""

    def __init__(self, ctl):
        self.q = queue.Queue()
        self.ctl = ctl

    def put(self, item, *a, **kw):
        return self.q.put(item, *a, **kw)

    def get_nowait(self):
        return self.get(block=False)

    def get(self, block=True, timeout=None):
        item = self.q.get(block, timeout)
        if item is not None and not self.ctl.free_run:
            try:
                tid = item.args[0]
            except Exception:   # noqa
                tid = None
            if isinstance(tid, int):
                self.ctl.gate_as(f'start{tid}', 'start')
        return item

    def qsize(self):
        return self.q.qsize()

    def empty(self):
        return self.q.empty()


def _gate_as(self, role, where):
    if self.free_run:
        return
    with self.cv:
        self.at[role] = where
        self.cv.notify_all()
        while self.grant != role and not self.free_run:
            self.cv.wait(0.5)
        self.grant = None
        self.at.pop(role, None)
        self.log.append((role, where))


Controller.gate_as = _gate_as


def replay_lpm_thread(model, step_timeout=1.0):
    import concurrent.futures
    import lazy_dataset.parallel_utils as pu
    pu_file = pu.__file__
    P = model['params']
    n, B, Wk, close_at = P['n'], P['buffer_size'], P['max_workers'], P['close_at']
    fail_at, fail_kind, taskfail, taskfail_kind = P['fail_at'], _kinds(P)[0], P['taskfail'], _kinds(P)[1]
    ctl = Controller()

    def tracer(frame, event, arg):
        qn = getattr(frame.f_code, 'co_qualname', frame.f_code.co_name)
        if frame.f_code.co_filename != pu_file or not (qn == 'lazy_parallel_map' or qn.startswith('lazy_parallel_map.')):
            return None

        def local(frame, event, arg):
            if event == 'line':
                ctl.gate(frame.f_lineno)
            return local
        return local

    events = []

    def source():
        for i in range(n + 1):
            if i == fail_at:
                raise _exc_class(fail_kind)(i)
            if i < n:
                events.append(('pull', i))
                yield i

    def fn(i):
        events.append(('start', i))
        ctl.gate_as(f'finish{i}', 'finish')
        events.append(('finish', i))
        if i == taskfail:
            raise _exc_class(taskfail_kind)(i)
        return i

    futures = []

    class GatedTPE(concurrent.futures.ThreadPoolExecutor):
        def __init__(self, *a, **kw):
            super().__init__(*a, **kw)
            self._work_queue = _GatedQueue(ctl)

        def submit(self, *a, **kw):
            f = super().submit(*a, **kw)
            futures.append(f)
            return f

    class _CF:
        def __getattr__(self, name):
            return getattr(concurrent.futures, name)
    cfp = _CF()
    cfp.ThreadPoolExecutor = GatedTPE

    class _Conc:
        futures = cfp
    delivered = []
    result = {}

    def main_role():
        ctl.roles[threading.get_ident()] = '$main'
        sys.settrace(tracer)
        try:
            g = pu.lazy_parallel_map(fn, source(), buffer_size=B, max_workers=Wk, backend='t')
            try:
                for x in g:
                    delivered.append(x)
                    events.append(('deliver', x))
                    if len(delivered) == close_at:
                        events.append(('closing',))
                        g.close()
                        events.append(('closed',))
                        break
                result['end'] = 'return'
            except BaseException as e:   # noqa
                result['end'] = type(e).__name__
        finally:
            sys.settrace(None)
            events.append(('returned', result.get('end')))
            ctl.done('$main')

    saved = pu.concurrent
    pu.concurrent = _Conc
    try:
        m = threading.Thread(target=main_role, daemon=True)
        m.start()
        mismatches, followed, skipped = [], 0, 0
        exit_lines = {st['line'] for st in model['trace'] if st.get('label') == 'executor.__exit__'}
        pending_at_exit = None

        def probe_exit():
            # mirrors the `cancelled` query: the consumer has stopped early, the main thread stands at the executor's __exit__,
            # and a submitted future is still PENDING (it will be executed instead of cancelled)
            nonlocal pending_at_exit
            if pending_at_exit is None and any(e[0] == 'closing' for e in events) and ctl.at.get('$main') in exit_lines:
                pending_at_exit = [k for k, f in enumerate(futures) if not f.done() and not f.running()]
        for step_i, step in enumerate(model['trace']):
            probe_exit()
            if step.get('local'):
                followed += 1
                continue
            if step['actor'] == 'pool':
                role = ('start' if step['label'] == 'start' else 'finish') + str(step['task'])
                where = ctl.wait_gated(role, step_timeout)
                if where is None:
                    skipped += 1          # e.g. the model drops a cancelled item: the real worker thread skips it on its own
                    continue
                ctl.release(role)
                followed += 1
                ctl.settle(role, 0.05)
                continue
            th, line = step['actor'], step['line']
            where = ctl.wait_gated(th, step_timeout)
            guard = 0
            while where not in (line, 'done', None) and guard < 400:
                ctl.release(th)
                guard += 1
                ctl.settle(th)
                where = ctl.wait_gated(th, step_timeout)
            if where != line:
                mismatches.append(dict(actor=th, wanted=line, got=where, step=followed))
                break
            ctl.release(th)
            followed += 1
            ctl.settle(th)
            if th == '$main':
                _advance_to_next_modelled_line(ctl, [st for st in model['trace']], step_i, th)
        probe_exit()
        mark = len(events)          # everything after this point happens after the end of the model's schedule
        # drain
        deadline = time.time() + 3.0
        while time.time() < deadline:
            busy = False
            for r in list(ctl.at):
                if ctl.at.get(r) != 'done':
                    ctl.release(r)
                    busy = True
                    time.sleep(0.001)
            if ctl.at.get('$main') == 'done' and not busy:
                break
            if not busy:
                time.sleep(0.01)
        m.join(0.5)
        out = dict(delivered=list(delivered), end=result.get('end'), mismatches=mismatches, followed=followed, skipped=skipped,
                   steps=len(model['trace']), main_alive=m.is_alive(), workers_alive=[], events=list(events))
        idx_closed = next((k for k, e in enumerate(events) if e[0] == 'closed'), None)
        idx_ret = next((k for k, e in enumerate(events) if e[0] == 'returned'), None)
        idx_closing = next((k for k, e in enumerate(events) if e[0] == 'closing'), None)
        # tasks that start once the consumer has stopped early and the main thread has run to the end of the model's schedule
        # (the `cancelled` query ends it at the executor's __exit__): they were still pending there and get executed instead of cancelled
        out['started_after_close'] = [e[1] for k, e in enumerate(events) if e[0] == 'start' and idx_closing is not None and k >= mark and k > idx_closing] + \
            [e[1] for k, e in enumerate(events) if e[0] == 'start' and idx_closed is not None and k > idx_closed]
        out['ran_after_return'] = [e for k, e in enumerate(events) if e[0] in ('start', 'finish') and idx_ret is not None and k > idx_ret]
        pulled = started = deliv = 0
        mp_, ms_ = 0, 0
        for e in events:
            if e[0] == 'pull':
                pulled += 1
            elif e[0] == 'start':
                started += 1
            elif e[0] == 'deliver':
                deliv += 1
            mp_ = max(mp_, pulled - deliv)
            ms_ = max(ms_, started - deliv)
        out['max_pulled_minus_delivered'], out['max_started_minus_delivered'] = mp_, ms_
        out['pending_at_exit'] = pending_at_exit or []
        ctl.release_all()
        return out
    finally:
        pu.concurrent = saved
