"""E2, unbounded-length part of C04 for single_thread_prefetch: "the m-th delivered example is source item m" for every dataset length.

Same idea as engine/bmc/induct.py (one-step induction on the transition relation generated from the current source), but the
strengthening is found by the Houdini scheme instead of a potential template: a large family of *candidate* facts over one state
(ranges; "at location l the phase flag is b"; "at location l variable v holds item delivered+c / pulled+c / the end marker"; "the j-th queue
slot holds item delivered+j+c"; "at locations (lm, lw) pulled-delivered = queue length + c"; "only the last slot can hold the end marker")
is pruned by z3 until the conjunction of the survivors is inductive:

    repeat:  sat?  survivors(S) and Step(S, S') and not survivors(S')   ->  drop every candidate that the model falsifies in S'
    until unsat.

The survivors hold in the state in which the worker is started (pruned the same way against Init + the k0 prologue steps), so they are an
invariant; the claim is made iff `not bad_order` is among them.  Every verdict is a solver verdict on the encoded relation (n <= 100,
buffer_size 1..Bmax, every stop / failure parameter free, schedules of any length); if the loop ends without `not bad_order` the result is
*not closed* (inconclusive beyond the BMC bounds - never a violation, never success).
"""
import time

import z3

from engine.bmc import cfg, systems
from engine.bmc.cfg import IV, SENT

NMAX = 100


def prove_order(Bmax=3, timeout=300, log=None, max_rounds=400):
    t0 = time.time()
    out = dict(system='single_thread_prefetch', claim=f'every delivered example is the next source item (no loss, duplication or reordering) in every reachable state, '
               f'every n <= {NMAX}, buffer_size 1..{Bmax}, schedules of any length, every stop point / source failure',
               bounds=dict(n_max=NMAX, buffer_max=Bmax, steps='unbounded (one-step induction, Houdini strengthening)'), queries=0, solver_s=0.0)

    def done(result, detail=''):
        out.update(result=result, detail=detail, secs=round(time.time() - t0, 2), solver_s=round(out['solver_s'], 2))
        return out
    try:
        sysm = systems.build_stp(Bmax + 1)
    except cfg.Unsupported as e:
        return done('unsupported', 'translation: ' + str(e))
    prog = sysm.prog
    s1, _ = systems.encode(sysm, systems.Bounds(NMAX, Bmax, 1, 1), 'none', free_init=True)
    ctx = s1.vctx
    a, b, consts, threads = ctx['St'][0], ctx['St'][1], ctx['consts'], ctx['threads']
    if len(threads) != 2 or len(prog.queues) != 1:
        return done('unsupported', 'two threads and one queue are expected')
    q = list(prog.queues)[0]
    QC = sysm.compiler.QC
    w_th = [t for t in threads if t != '$main'][0]
    nloc = {th: prog.nloc[th] for th in threads}
    B = consts['$buffer_size']
    flags = [v for v, (typ, init) in prog.vars.items() if typ == 'bool' and isinstance(init, bool)]
    ints = [v for v, (typ, init) in prog.vars.items() if typ == 'int' and v not in prog.excvars and not v.endswith('.cnt')]
    w_ints = [v for v in ints if v.startswith(w_th + '.') or v.startswith('$t')]
    m_ints = [v for v in ints if not v.startswith(w_th + '.')]

    def check(solver, *assumptions):
        solver.set('timeout', int(timeout * 1000))
        t1 = time.time()
        r = solver.check(*assumptions)
        out['queries'] += 1
        out['solver_s'] += time.time() - t1
        return r

    # ---- start state: first state in which the worker has been started
    k0 = None
    for k in range(1, 16):
        sk, _ = systems.encode(sysm, systems.Bounds(NMAX, Bmax, 1, k), 'none')
        if check(sk) != z3.sat:
            break
        if z3.is_true(sk.model().eval(sk.vctx['St'][k][f'${w_th}.started'], model_completion=True)):
            k0 = k
            break
    if k0 is None:
        return done('unsupported', 'the worker thread is not started within 15 steps')

    # ---- candidates
    C = []          # (name, fn(S) -> Bool)

    def cand(name, fn):
        C.append((name, fn))
    d = lambda S: S['$pulled'] - S['$delivered']
    ql = lambda S: S[q + '.len']
    cand('started', lambda S: S[f'${w_th}.started'])
    cand('qlen>=0', lambda S: ql(S) >= 0)
    cand('qlen<=B', lambda S: ql(S) <= B)
    cand('pulled>=0', lambda S: S['$pulled'] >= 0)
    cand('pulled<=n', lambda S: S['$pulled'] <= consts['$n'])
    cand('delivered>=0', lambda S: S['$delivered'] >= 0)
    cand('delivered<=pulled+3', lambda S: S['$delivered'] <= S['$pulled'] + 3)
    cand('not bad_order', lambda S: z3.Not(S['$bad_order']))
    for th in threads:
        cand(f'pc.{th} in range', lambda S, th=th: z3.And(S['pc.' + th] >= 0, S['pc.' + th] < nloc[th]))
    live = flags[:]
    for f in flags:
        for th in threads:
            for l in range(nloc[th]):
                for bv in (True, False):
                    cand(f'{th}@{l} => {f}=={bv}', lambda S, th=th, l=l, f=f, bv=bv: z3.Implies(S['pc.' + th] == l, S[f] == z3.BoolVal(bv)))
    ph = (lambda S: z3.Not(z3.Or([S[f] for f in live]))) if live else (lambda S: z3.BoolVal(True))     # "no flag raised" phase
    for l in range(nloc['$main']):
        for v in m_ints:
            for c in (-1, 0, 1):
                cand(f'main@{l} => {v}==delivered{c:+d}', lambda S, l=l, v=v, c=c: z3.Implies(S['pc.$main'] == l, S[v] == S['$delivered'] + c))
                cand(f'main@{l} => {v}==delivered{c:+d} or END', lambda S, l=l, v=v, c=c: z3.Implies(S['pc.$main'] == l, z3.Or(S[v] == IV(SENT), S[v] == S['$delivered'] + c)))
            cand(f'main@{l} => {v}==END', lambda S, l=l, v=v: z3.Implies(S['pc.$main'] == l, S[v] == IV(SENT)))
        for c in (0, 1):
            cand(f'main@{l} => slots==delivered+j{c:+d}', lambda S, l=l, c=c: z3.Implies(z3.And(ph(S), S['pc.$main'] == l), z3.And(
                [z3.Implies(z3.And(j < ql(S), S[f'{q}[{j}]'] != IV(SENT)), S[f'{q}[{j}]'] == S['$delivered'] + j + c) for j in range(QC)])))
    for l in range(nloc[w_th]):
        for v in w_ints:
            for c in (-1, 0):
                cand(f'worker@{l} => {v}==pulled{c:+d}', lambda S, l=l, v=v, c=c: z3.Implies(S['pc.' + w_th] == l, S[v] == S['$pulled'] + c))
        cand(f'worker@{l} => no END in queue', lambda S, l=l: z3.Implies(S['pc.' + w_th] == l, z3.And([z3.Implies(j < ql(S), S[f'{q}[{j}]'] != IV(SENT)) for j in range(QC)])))
        cand(f'worker@{l} => END in queue or taken', lambda S, l=l: z3.Implies(z3.And(ph(S), S['pc.' + w_th] == l), z3.Or(
            [z3.And(j < ql(S), S[f'{q}[{j}]'] == IV(SENT)) for j in range(QC)] + [S[v] == IV(SENT) for v in m_ints])))
    cand('only the last slot holds END', lambda S: z3.And([z3.Implies(j < ql(S) - 1, S[f'{q}[{j}]'] != IV(SENT)) for j in range(QC)]))
    for lm in range(nloc['$main']):
        for lw in range(nloc[w_th]):
            for c in (-1, 0, 1, 2):
                cand(f'main@{lm},worker@{lw} => d==qlen{c:+d}',
                     lambda S, lm=lm, lw=lw, c=c: z3.Implies(z3.And(ph(S), S['pc.$main'] == lm, S['pc.' + w_th] == lw), d(S) == ql(S) + c))
    out['candidates'] = len(C)
    alive = list(range(len(C)))

    def prune(solver, S_pre, S_post, label):
        """Houdini loop on `solver` (already holds the step / prologue constraints): survivors(S_pre) => survivors(S_post)"""
        nonlocal alive
        act = [z3.Bool(f'act_{label}_{i}') for i in range(len(C))]
        if S_pre is not None:
            for i in alive:
                solver.add(z3.Implies(act[i], C[i][1](S_pre)))
        post = {i: C[i][1](S_post) for i in alive}
        rounds = 0
        while True:
            rounds += 1
            if rounds > max_rounds:
                return 'round limit'
            solver.push()
            solver.add(z3.Or([z3.Not(post[i]) for i in alive]))
            r = check(solver, *[act[i] for i in alive])
            if r == z3.unsat:
                solver.pop()
                return None
            if r != z3.sat:
                solver.pop()
                return f'solver answered {r}'
            m = solver.model()
            keep = [i for i in alive if z3.is_true(m.eval(post[i], model_completion=True))]
            solver.pop()
            if len(keep) == len(alive):
                return 'no progress'
            alive = keep
            if log and rounds % 10 == 0:
                log(f'houdini {label}: round {rounds}, {len(alive)} candidates alive')

    # survivors must hold when the worker is started ...
    s0, _ = systems.encode(sysm, systems.Bounds(NMAX, Bmax, 1, k0), 'none')
    why = prune(s0, None, s0.vctx['St'][k0], 'start')
    if why:
        return done('not-closed', 'start state: ' + why)
    out['alive_after_start'] = len(alive)
    # ... and be inductive (pruning for induction only removes candidates, so the start-state property is kept)
    sv = z3.Solver()
    sv.add(s1.assertions())
    why = prune(sv, a, b, 'step')
    if why:
        return done('not-closed', 'induction: ' + why)
    names = [C[i][0] for i in alive]
    out['invariant_size'] = len(alive)
    out['invariant_sample'] = [n_ for n_ in names if '=>' not in n_][:12]
    # the prologue itself must not violate the property either
    sp, _ = systems.encode(sysm, systems.Bounds(NMAX, Bmax, 1, k0), 'none')
    sp.add(z3.Or([S['$bad_order'] for S in sp.vctx['St']]))
    if check(sp) != z3.unsat:
        return done('not-closed', 'the property fails in the prologue')
    # non-vacuity: the invariant admits a move
    sn = z3.Solver()
    sn.add(s1.assertions())
    sn.add(*[C[i][1](a) for i in alive])
    sn.add(ctx['ch'][0] >= 0)
    if check(sn) != z3.sat:
        return done('not-closed', 'the invariant admits no move (vacuous)')
    if 'not bad_order' not in names:
        return done('not-closed', f'{len(alive)} candidates are inductive, but "not bad_order" is not among them')
    return done('closed', f'{len(alive)} of {len(C)} candidate facts form an inductive invariant that contains "not bad_order"')


if __name__ == '__main__':
    import json
    import sys
    r = prove_order(int(sys.argv[1]) if len(sys.argv) > 1 else 3, log=print)
    print(json.dumps(r, indent=1))
