"""E2, unbounded-length part of C07: an inductive read-ahead invariant for single_thread_prefetch.

The step-bounded BMC groups decide `pulled - delivered <= buffer_size + 2` for n <= 8 and prefixes of <= 44 steps.  This module
lifts the claim to *every* dataset length that fits the bit width (n <= NMAX = 100, 8-bit signed state) and every schedule of
*any* length by one-step induction over the same transition system (generated from the source that is in the repository now):

  1. synthesis: two linear potential functions over the control locations (an upper and a lower one, one table per thread
     and per value of a boolean "phase" variable of the program such as `shutdown`) are found by z3 over linear integer
     arithmetic, from the effect of every guarded command on (pulled - delivered) and on the queue length;
  2. decision: the candidate invariant  Inv(S) = base(S) and  L(S) <= pulled - delivered <= U(S)  is checked on the *encoded
     transition relation* (bit-vector state, all threads, every failure / stop parameter free) with three z3 queries that must
     all be unsat:  Init and not Inv;  Inv(S) and Step(S,S') and not Inv(S');  Inv(S) and pulled - delivered > B + 2.
     A further query (must be sat) shows that Inv admits a step, so the step query is not vacuous.

Only step 2 carries the claim: a wrong or missing candidate makes the induction *not close* (reported as inconclusive for lengths
beyond the BMC bounds, never as a violation and never as success).  Violations are found by the BMC queries, not here.
"""
import os
import time

import z3

from engine.bmc import cfg
from engine.bmc.cfg import IV, W
from engine.bmc import systems

NMAX = 100       # 8-bit signed counters: pulled <= n <= 100, delivered <= pulled + 3
LOW = -3         # lower potential never below this (keeps `delivered` from running away: no wrap-around)


class _Tracked(z3.Solver):
    """debugging aid (VERIF_INDUCT_DEBUG=1): every constraint of the synthesis problem is tracked so that an unsat core can be printed"""
    def add(self, *cs):
        import traceback
        for c_ in cs:
            self.assert_and_track(c_, f'c{len(self.assertions())}@{traceback.extract_stack()[-2].lineno}:{str(c_)[:150]}')


def _num(e):
    e = z3.simplify(e)
    if z3.is_bv_value(e):
        return e.as_signed_long()
    return None


def prove_readahead(Bmax=4, timeout=300, log=None, slack=2):
    """returns dict(result='closed' | 'not-closed' | 'unsupported', detail, queries=[...], secs)"""
    t0 = time.time()
    out = dict(system='single_thread_prefetch', claim=f'pulled - delivered <= buffer_size + {slack} in every reachable state, every n <= {NMAX}, buffer_size 1..{Bmax}, '
               'schedules of any length, every stop point / source failure', queries=[], bounds=dict(n_max=NMAX, buffer_max=Bmax, steps='unbounded (one-step induction)'))

    def done(result, detail=''):
        out.update(result=result, detail=detail, secs=round(time.time() - t0, 2))
        return out
    try:
        sysm = systems.build_stp(Bmax + 1)
    except cfg.Unsupported as e:
        return done('unsupported', 'translation: ' + str(e))
    prog = sysm.prog
    bd = systems.Bounds(NMAX, Bmax, 1, 1)
    s1, _ = systems.encode(sysm, bd, 'none', free_init=True)
    ctx = s1.vctx
    a, b, consts, names, threads, comps = ctx['St'][0], ctx['St'][1], ctx['consts'], ctx['names'], ctx['threads'], ctx['comps']
    if len(threads) != 2:
        return done('unsupported', f'{len(threads)} threads')
    bq = [q for q, (kind, cap) in prog.queues.items() if cap is not None and z3.eq(z3.simplify(consts[q + '.cap']), consts['$buffer_size'])]
    if len(bq) != 1 or len(prog.queues) != 1:
        return done('unsupported', 'exactly one queue, bounded by buffer_size, is expected for the potential template')
    q = bq[0]
    B = consts['$buffer_size']
    phase_cands = [None] + [v for v, (typ, init) in prog.vars.items() if typ == 'bool' and isinstance(init, bool)]
    nloc = {th: prog.nloc[th] for th in threads}

    # ---- effect of every guarded command on d = pulled - delivered and on the queue length (constants, else unsupported)
    eff = []
    for e in prog.edges:
        u = dict(e.upd(a)) if e.upd is not None else {}
        dd = (_num(u['$pulled'] - a['$pulled']) if '$pulled' in u else 0, _num(u['$delivered'] - a['$delivered']) if '$delivered' in u else 0)
        dq = _num(u[q + '.len'] - a[q + '.len']) if q + '.len' in u else 0
        if None in dd or dq is None:
            return done('unsupported', f'command at line {e.line} ({e.label}) changes a counter by a non-constant amount')
        eff.append((e, dd[0] - dd[1], dq, u))

    # ---- the sequential prologue: everything up to thread.start() is deterministic; the induction starts at the first state in
    # which the worker has been started (the prologue itself is covered by a k0-step BMC query in _try_phase)
    w_th = [t for t in threads if t != '$main'][0]
    start = None
    for k0 in range(1, 16):
        sk, _ = systems.encode(sysm, systems.Bounds(NMAX, Bmax, 1, k0), 'none')
        if sk.check() != z3.sat:
            break
        mk = sk.model()
        Sk = sk.vctx['St'][k0]
        if z3.is_true(mk.eval(Sk[f'${w_th}.started'], model_completion=True)):
            start = dict(k0=k0, pc_main=mk.eval(Sk['pc.$main'], model_completion=True).as_signed_long(),
                         phase={v: z3.is_true(mk.eval(Sk[v], model_completion=True)) for v in phase_cands if v is not None})
            break
    if start is None:
        return done('unsupported', 'the worker thread is not started within 15 steps')
    out['prologue_steps'] = start['k0']
    last_detail = 'no candidate'
    for ph in phase_cands:
        res = _try_phase(ph, sysm, s1, ctx, eff, q, nloc, Bmax, timeout, out, log, start, slack)
        if res is True:
            out['phase_variable'] = ph
            return done('closed', f'inductive invariant found and verified (phase variable: {ph})')
        last_detail = res
    return done('not-closed', last_detail)


def _try_phase(ph, sysm, s1, ctx, eff, q, nloc, Bmax, timeout, out, log, start, slack):
    prog = sysm.prog
    a, b, consts, threads, comps = ctx['St'][0], ctx['St'][1], ctx['consts'], ctx['threads'], ctx['comps']
    B = consts['$buffer_size']
    phases = [False, True] if ph is not None else [None]
    tiny = z3.Solver()

    def enabled_in(e, p):
        """can the command's guard hold when the phase variable has value p?  (syntactic over-approximation via z3)"""
        if p is None or e.guard is None:
            return True
        tiny.push()
        tiny.add(e.guard(a), a[ph] == z3.BoolVal(p))
        r = tiny.check() != z3.unsat
        tiny.pop()
        return r

    def phase_after(u, p):
        if p is None or ph not in u:
            return [p]
        v = z3.simplify(u[ph])
        if z3.is_true(v):
            return [True]
        if z3.is_false(v):
            return [False]
        return [False, True]

    # ---- synthesis of the potentials (linear integer arithmetic)
    o = _Tracked() if os.environ.get('VERIF_INDUCT_DEBUG') else z3.Solver()
    o.set('timeout', 120000)
    P = lambda name, lo, hi: (lambda v: (o.add(v >= lo, v <= hi), v)[1])(z3.Int(name))
    au = {p: P(f'au_{p}', 0, 1) for p in phases}
    bu = {p: P(f'bu_{p}', 0, 1) for p in phases}
    cu = {p: P(f'cu_{p}', 0, 2) for p in phases}
    al = {p: P(f'al_{p}', 0, 1) for p in phases}
    cl = {p: P(f'cl_{p}', LOW, 0) for p in phases}
    X = {(p, th, l): P(f'X_{p}_{th}_{l}', 0, 2) for p in phases for th in threads for l in range(nloc[th])}
    Y = {(p, th, l): P(f'Y_{p}_{th}_{l}', LOW, 2) for p in phases for th in threads for l in range(nloc[th])}
    other = {threads[0]: threads[1], threads[1]: threads[0]}
    qB = [(qq, BB) for BB in range(1, Bmax + 1) for qq in range(0, BB + 1)]

    def U(p, qq, BB, th, l, w):
        return au[p] * qq + bu[p] * BB + cu[p] + X[(p, th, l)] + X[(p, other[th], w)]

    def L(p, qq, th, l, w):
        return al[p] * qq + cl[p] + Y[(p, th, l)] + Y[(p, other[th], w)]
    # R[p, th, l]: thread th may be at location l while the phase variable has value p (chosen by the solver, closed under the commands)
    R = {(p, th, l): z3.Bool(f'R_{p}_{th}_{l}') for p in phases for th in threads for l in range(nloc[th])}
    for e, dd, dq, u in eff:
        th = e.thread
        for p in phases:
            if not enabled_in(e, p):
                continue
            for p2 in phase_after(u, p):
                here = R[(p, th, e.src)]
                o.add(z3.Implies(here, R[(p2, th, e.dst)]))
                if p2 == p:
                    o.add(z3.Implies(here, au[p] * dq + X[(p, th, e.dst)] - X[(p, th, e.src)] >= dd))
                    o.add(z3.Implies(here, al[p] * dq + Y[(p, th, e.dst)] - Y[(p, th, e.src)] <= dd))
                else:
                    for w in range(nloc[other[th]]):
                        both = z3.And(here, R[(p, other[th], w)])
                        o.add(z3.Implies(both, R[(p2, other[th], w)]))
                        for (qq, BB) in qB:
                            if qq + dq < 0 or qq + dq > BB:
                                continue
                            o.add(z3.Implies(both, U(p2, qq + dq, BB, th, e.dst, w) - U(p, qq, BB, th, e.src, w) >= dd))
                            o.add(z3.Implies(both, L(p2, qq + dq, th, e.dst, w) - L(p, qq, th, e.src, w) <= dd))
    m_th, w_th = '$main', [t for t in threads if t != '$main'][0]
    for p in phases:
        o.add(au[p] + bu[p] <= 1)
        for l in range(nloc[m_th]):
            for w in range(nloc[w_th]):
                both = z3.And(R[(p, m_th, l)], R[(p, w_th, w)])
                o.add(z3.Implies(both, cu[p] + X[(p, m_th, l)] + X[(p, w_th, w)] <= slack))        # with q <= B: U <= B + slack
                o.add(z3.Implies(both, cl[p] + Y[(p, m_th, l)] + Y[(p, w_th, w)] >= LOW))
    p0 = None if ph is None else start['phase'][ph]
    o.add(R[(p0, m_th, start['pc_main'])], R[(p0, w_th, comps[w_th]['entry'])])
    o.add(U(p0, 0, 1, m_th, start['pc_main'], comps[w_th]['entry']) >= 0)      # d = 0 and the queue is empty when the worker is started
    o.add(L(p0, 0, m_th, start['pc_main'], comps[w_th]['entry']) <= 0)
    t1 = time.time()
    r = o.check()
    out['queries'].append(dict(query=f'synthesis[phase={ph}]', logic='QF_LIA', result=str(r), secs=round(time.time() - t1, 2)))
    if r != z3.sat:
        if os.environ.get('VERIF_INDUCT_DEBUG') and r == z3.unsat:
            print('\n'.join(sorted(str(x) for x in o.unsat_core())))
        return f'no potential function in the template (phase variable {ph}): {r}'
    m = o.model()
    val = lambda v: m.eval(v, model_completion=True).as_long()

    # ---- the candidate invariant as a formula over an encoded state
    def table(S, tab, p, th):
        e = IV(val(tab[(p, th, 0)]))
        for l in range(1, nloc[th]):
            e = z3.If(S['pc.' + th] == l, IV(val(tab[(p, th, l)])), e)
        return e

    def inv(S):
        d = S['$pulled'] - S['$delivered']
        ql = S[q + '.len']
        cs = [ql >= 0, ql <= B, S['$pulled'] >= 0, S['$pulled'] <= consts['$n'], S['$delivered'] >= 0, S['$delivered'] <= NMAX + 10]
        cs += [z3.And(S['pc.' + th] >= 0, S['pc.' + th] < nloc[th]) for th in threads]
        cs.append(S[f'${w_th}.started'])
        for p in phases:
            for th in threads:
                for l in range(nloc[th]):
                    if not z3.is_true(m.eval(R[(p, th, l)], model_completion=True)):
                        cs.append(z3.Not(S['pc.' + th] == l) if p is None else z3.Not(z3.And(S['pc.' + th] == l, S[ph] == z3.BoolVal(p))))
            up = IV(val(au[p])) * ql + IV(val(bu[p])) * B + IV(val(cu[p])) + table(S, X, p, m_th) + table(S, X, p, w_th)
            lo = IV(val(al[p])) * ql + IV(val(cl[p])) + table(S, Y, p, m_th) + table(S, Y, p, w_th)
            body = z3.And(d <= up, d >= lo)
            cs.append(body if p is None else z3.Implies(S[ph] == z3.BoolVal(p), body))
        return z3.And(cs)

    def ask(name, solver, expect):
        solver.set('timeout', int(timeout * 1000))
        t2 = time.time()
        r = solver.check()
        out['queries'].append(dict(query=f'{name}[phase={ph}]', logic='QF_BV', result=str(r), expected=expect, secs=round(time.time() - t2, 2)))
        if log:
            log(f'induction {name} phase={ph}: {r}')
        return str(r)
    # prologue: Init and k0 steps => the read-ahead bound holds on the way and Inv holds in the k0-th state
    k0 = start['k0']
    s0, _ = systems.encode(sysm, systems.Bounds(NMAX, Bmax, 1, k0), 'none')
    St0 = s0.vctx['St']
    s0.add(z3.Not(z3.And([inv(St0[k0])] + [S['$pulled'] - S['$delivered'] <= B + slack for S in St0])))
    if ask('prologue', s0, 'unsat') != 'unsat':
        return 'candidate does not hold when the worker is started'
    # Inv(S) and Step(S, S') => Inv(S')
    sv = z3.Solver()
    sv.add(s1.assertions())
    sv.push()
    sv.add(inv(a))
    if ask('nonvacuous', sv, 'sat') != 'sat':
        return 'candidate invariant admits no step'
    sv.add(ctx['ch'][0] >= 0)
    if ask('nonvacuous_move', sv, 'sat') != 'sat':
        return 'candidate invariant admits no move'
    sv.pop()
    sv.add(inv(a), z3.Not(inv(b)))
    if ask('step', sv, 'unsat') != 'unsat':
        return 'candidate is not inductive'
    # Inv => property
    sp = z3.Solver()
    sp.add(s1.assertions())
    sp.add(inv(a), a['$pulled'] - a['$delivered'] > B + slack)
    if ask('safety', sp, 'unsat') != 'unsat':
        return 'candidate does not imply the read-ahead bound'
    out['invariant'] = dict(upper={str(p): dict(q_coeff=val(au[p]), B_coeff=val(bu[p]), const=val(cu[p])) for p in phases},
                            lower={str(p): dict(q_coeff=val(al[p]), const=val(cl[p])) for p in phases},
                            max_upper_main=max(val(X[(p, m_th, l)]) for p in phases for l in range(nloc[m_th])),
                            max_upper_worker=max(val(X[(p, w_th, l)]) for p in phases for l in range(nloc[w_th])))
    return True


if __name__ == '__main__':
    import json
    import sys
    r = prove_readahead(int(sys.argv[1]) if len(sys.argv) > 1 else 4, log=print, slack=int(sys.argv[2]) if len(sys.argv) > 2 else 2)
    print(json.dumps(r, indent=1))
