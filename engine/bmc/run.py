"""Run E2 queries in parallel worker processes and turn the results into check results.

Each query is the negation of one property over all executions of the generated transition system within the
bounds; `unsat` = holds within the bounds, `sat` = concrete schedule (replayed on the real code before it is
reported), `unknown`/timeout = inconclusive.  The completeness-threshold query (`threshold`) is the unwinding
assertion: if it is `sat`, K is too small and every other verdict of that (system, bounds) group is inconclusive.
"""
import multiprocessing as mp
import os
import sys
import time


def _worker(spec):
    from engine.bmc import systems
    return systems.run_query(spec)


def run_queries(specs, nproc=16, log=None, hard_timeout=None):
    """-> list of results in spec order"""
    ctx = mp.get_context('spawn')
    out = [None] * len(specs)
    t0 = time.time()
    with ctx.Pool(min(nproc, max(1, len(specs)))) as pool:
        asyncs = [pool.apply_async(_worker, (s,)) for s in specs]
        last = time.time()
        pending = set(range(len(specs)))
        while pending:
            for i in list(pending):
                if asyncs[i].ready():
                    try:
                        out[i] = asyncs[i].get()
                    except Exception as e:   # noqa
                        out[i] = dict(spec=specs[i], result='error', detail=repr(e), secs=0)
                    pending.discard(i)
            if hard_timeout and time.time() - t0 > hard_timeout:
                for i in pending:
                    out[i] = dict(spec=specs[i], result='unknown', detail='hard timeout', secs=hard_timeout)
                pool.terminate()
                break
            if log and time.time() - last > 30:
                last = time.time()
                log(f'  ... {len(specs) - len(pending)}/{len(specs)} BMC queries, {time.time() - t0:.0f}s')
            time.sleep(0.05)
    return out


def label(spec):
    sysname = 'single_thread_prefetch' if spec['system'] == 'stp' else f'lazy_parallel_map[{spec["backend"]}]'
    ex = ''.join(f' {k}={spec[k]}' for k in ('n_exact', 'B_exact', 'W_exact', 'region') if spec.get(k) is not None)
    return f'{sysname}:{spec["mode"]} n<={spec["N"]} B<={spec["B"]} w<={spec.get("Wk", 1)} K={spec["K"]}{ex}'
