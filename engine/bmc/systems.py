"""E2: build the transition systems of parallel_utils.single_thread_prefetch and lazy_parallel_map from the
source that is in the repository *now*, and encode bounded executions in z3 (bit-vector state, one functional
next-state term per thread, one choice variable per step).

Environment as solver variables: n (source items), buffer_size, max_workers, the schedule (choice per step),
close_at (consumer stops after that many delivered examples; -1 = never), fail_at / fail_kind (source raises at
that position; an Exception, a BaseException-only, or queue.Empty itself), taskfail / taskfail_kind (mapped function raises for that task).
"""
import ast
import importlib
import inspect
import os
import time

import z3

from engine.bmc import cfg
from engine.bmc.cfg import IV, W, KNAME, GENEXIT, UEXC, UBASE, EMPTY, UEMPTY, USER_KINDS, NONE, NOTSUB, PENDING, RUNNING, DONE_OK, DONE_EXC, CANCELLED, KILLED, LOST


def _source_of(funcname):
    """AST of the function as it is in the repository's working tree right now"""
    path = os.environ.get('VERIF_PU_SRC')
    if path is None:
        import lazy_dataset.parallel_utils as pu
        path = pu.__file__
    with open(path) as fd:
        mod = ast.parse(fd.read())
    for x in mod.body:
        if isinstance(x, ast.FunctionDef) and x.name == funcname:
            return x, path
    raise cfg.Unsupported(f'{funcname} not found in {path}')


class System:
    def __init__(self):
        self.prog = None
        self.comps = {}        # thread -> dict(entry, END, ENDX)
        self.compiler = None
        self.N = 0             # number of task slots (pool systems)
        self.pool_kind = None
        self.first_line = 1
        self.path = None
        self.name = ''

    @property
    def threads(self):
        return list(self.comps)

    def describe(self):
        return dict(name=self.name, locations={t: self.prog.nloc[t] for t in self.prog.nloc}, commands=len(self.prog.edges),
                    state_vars=len(self.prog.vars), pool=self.pool_kind, source=self.path)


# ----------------------------------------------------------------------------- single_thread_prefetch
QUEUE_CTORS = ('queue.Queue', 'queue.LifoQueue', 'queue.SimpleQueue', 'Queue', 'LifoQueue', 'SimpleQueue')


def _queue_decl(call):
    """(constructor source, capacity expression or None)"""
    src = ast.unparse(call.func)
    if not src.startswith('queue.'):
        src = 'queue.' + src
    cap = call.args[0] if call.args else None
    for kw in call.keywords:
        if kw.arg == 'maxsize':
            cap = kw.value
        else:
            raise cfg.Unsupported('queue constructor keyword ' + str(kw.arg))
    return (src, cap)


SEM_CTORS = {'threading.Semaphore': 1, 'threading.BoundedSemaphore': 1, 'threading.Lock': 1, 'Semaphore': 1, 'BoundedSemaphore': 1, 'Lock': 1}


def _sync_decl(prog, name, call):
    """x = threading.Semaphore(v) / BoundedSemaphore(v) / Lock() / Event(): declares the primitive, returns True if it was one"""
    src = ast.unparse(call.func)
    if src in SEM_CTORS:
        init = SEM_CTORS[src]
        args = list(call.args) + [kw.value for kw in call.keywords if kw.arg == 'value']
        if args and 'Lock' not in src:
            init = args[0].value if isinstance(args[0], ast.Constant) and isinstance(args[0].value, int) else args[0]
        prog.sems[name] = init
        prog.vars[name + '.cnt'] = ('int', init)
        return True
    if src in ('threading.Event', 'Event') and not call.args and not call.keywords:
        prog.events.add(name)
        prog.vars[name + '.set'] = ('bool', False)
        return True
    return False


def build_stp(QC):
    fn, path = _source_of('single_thread_prefetch')
    prog = cfg.Prog()
    params = {'generator': 'source', 'buffer_size': 'intparam'}
    argnames = [a.arg for a in fn.args.args]
    if argnames != ['generator', 'buffer_size']:
        raise cfg.Unsupported(f'single_thread_prefetch signature {argnames}')
    defs = {s.name: s for s in fn.body if isinstance(s, ast.FunctionDef)}
    tokens = {}
    main = []
    for s in fn.body:
        if isinstance(s, ast.Assign) and isinstance(s.value, ast.Call) and len(s.targets) == 1 and isinstance(s.targets[0], ast.Name):
            src = ast.unparse(s.value.func)
            name = s.targets[0].id
            if src in QUEUE_CTORS:
                prog.queues[name] = _queue_decl(s.value)
                continue
            if src == 'object':
                tokens[name] = cfg.SENT
                continue
            if _sync_decl(prog, name, s.value):
                continue
            if src in ('threading.Thread', 'Thread'):
                # Thread(group=None, target=None, name=None, args=(), kwargs=None, *, daemon=None)
                tgt = [kw.value for kw in s.value.keywords if kw.arg == 'target'] or list(s.value.args[1:2])
                targs = [kw.value for kw in s.value.keywords if kw.arg in ('args', 'kwargs')] + list(s.value.args[3:5])
                if len(tgt) != 1 or not isinstance(tgt[0], ast.Name) or tgt[0].id not in defs:
                    raise cfg.Unsupported('threading.Thread target')
                for a in targs:
                    if not (isinstance(a, (ast.Tuple, ast.List, ast.Dict)) and not (a.elts if not isinstance(a, ast.Dict) else a.keys)) \
                            and not (isinstance(a, ast.Constant) and a.value is None):
                        raise cfg.Unsupported('threading.Thread with arguments')
                prog.threads[name] = tgt[0].id
                continue
        main.append(s)
    sysm = System()
    sysm.name = 'single_thread_prefetch'
    end_of = {}
    for tname, fname in list(prog.threads.items()) + [(None, '$main')]:
        th = fname
        # nested helper functions that are not thread targets are inlined at their call sites (like the adapters of lazy_parallel_map)
        helpers = {n: d for n, d in defs.items() if n not in prog.threads.values()}
        c = cfg.Compiler(prog, th, params, QC, adapters=helpers)
        c.tokens = tokens
        c.end_of = end_of
        END = prog.newloc(th, 'END')
        ENDX = {kind: prog.newloc(th, 'END-' + KNAME[kind]) for kind in KNAME}
        end_of[th] = [END] + list(ENDX.values())
        ctx = cfg.Ctx(lambda END=END: END, _no_break, lambda kind, ENDX=ENDX: ENDX[kind])
        body = defs[fname].body if fname != '$main' else main
        if fname != '$main':
            if defs[fname].args.args:
                raise cfg.Unsupported('worker with parameters')
            nl = {n for s in ast.walk(defs[fname]) if isinstance(s, ast.Nonlocal) for n in s.names}
            assigned = set()
            for s in ast.walk(defs[fname]):
                if isinstance(s, ast.Assign):
                    assigned |= {t.id for t in s.targets if isinstance(t, ast.Name)}
                if isinstance(s, ast.For) and isinstance(s.target, ast.Name):
                    assigned.add(s.target.id)
            loc = assigned - nl

            class Ren(ast.NodeTransformer):
                def visit_Name(self, node):
                    if node.id in loc:
                        return ast.copy_location(ast.Name(id=fname + '.' + node.id, ctx=node.ctx), node)
                    return node
            body = [Ren().visit(s) for s in body]
        c.prescan(body)
        entry = c.block(body, END, ctx)
        sysm.comps[th] = dict(entry=entry, END=END, ENDX=ENDX)
        if fname == '$main':
            sysm.compiler = c
    sysm.prog = prog
    sysm.first_line = fn.lineno
    sysm.path = path
    cfg.simplify_cfg(prog, sysm.comps)
    return sysm


def _no_break():
    raise cfg.Unsupported('break outside loop')


# ----------------------------------------------------------------------------- lazy_parallel_map
POOL_KIND = {'t': 'thread', 'thread': 'thread', 'concurrent_mp': 'process', 'dill_mp': 'process', 'multiprocessing': 'mpool', 'mp': 'pathos'}


def partial_eval(fn, concrete):
    """walk the prologue: decide `if` tests that only involve concrete parameters; collect nested defs"""
    adapters = {}
    main = []

    def ev(e):
        return eval(compile(ast.Expression(e), '<pe>', 'eval'), {}, dict(concrete))

    def walk(stmts):
        for s in stmts:
            if isinstance(s, ast.If):
                names = {n.id for n in ast.walk(s.test) if isinstance(n, ast.Name)}
                if names <= set(concrete):
                    walk(s.body if ev(s.test) else s.orelse)
                    continue
            if isinstance(s, ast.FunctionDef):
                adapters[s.name] = s
                continue
            if isinstance(s, (ast.Import, ast.ImportFrom)):
                continue
            if isinstance(s, ast.Assign) and isinstance(s.targets[0], ast.Name) and s.targets[0].id in ('PoolExecutor', 'kwargs', 'args'):
                continue
            if isinstance(s, ast.Expr) and isinstance(s.value, ast.Constant):
                continue
            main.append(s)
    walk(fn.body)
    return adapters, main


def build_lpm(backend, QC, N):
    fn, path = _source_of('lazy_parallel_map')
    kw = [a.arg for a in fn.args.kwonlyargs]
    pos = [a.arg for a in fn.args.args]
    if pos != ['function', 'generator'] or set(kw) != {'args', 'kwargs', 'backend', 'buffer_size', 'max_workers'}:
        raise cfg.Unsupported(f'lazy_parallel_map signature {pos} {kw}')
    adapters, main = partial_eval(fn, dict(backend=backend, args=None, kwargs=None))
    prog = cfg.Prog()
    params = {'generator': 'source', 'buffer_size': 'intparam', 'max_workers': 'intparam'}
    main2 = []
    for s in main:
        if isinstance(s, ast.Assign) and isinstance(s.value, ast.Call) and ast.unparse(s.value.func) in QUEUE_CTORS:
            prog.queues[s.targets[0].id] = _queue_decl(s.value)
            continue
        if isinstance(s, ast.If) and 'ensure_single_thread_numeric' in ast.unparse(s):
            continue   # environment guard: precondition of the check (OMP_NUM_THREADS=MKL_NUM_THREADS=1)
        if isinstance(s, ast.Assign) and isinstance(s.value, ast.Call) and len(s.targets) == 1 and isinstance(s.targets[0], ast.Name) \
                and _sync_decl(prog, s.targets[0].id, s.value):
            continue
        main2.append(s)
    pool_kind = POOL_KIND[backend]
    c = cfg.Compiler(prog, '$main', params, QC, adapters=adapters, ntasks=N, pool_kind=pool_kind)
    c.pyconst = {'backend': backend}
    END = prog.newloc('$main', 'END')
    ENDX = {kind: prog.newloc('$main', 'END-' + KNAME[kind]) for kind in KNAME}
    ctx = cfg.Ctx(lambda: END, _no_break, lambda kind: ENDX[kind])
    for i in range(N):
        c.declare(f'st[{i}]', 'int', NOTSUB)
    c.declare('$sub', 'int', 0)
    c.declare('$deq', 'int', 0)
    c.declare('$started', 'int', 0)
    c.declare('$detached', 'bool', False)
    c.prescan(main2)
    entry = c.block(main2, END, ctx)
    sysm = System()
    sysm.name = f'lazy_parallel_map[{backend}]'
    sysm.prog, sysm.compiler, sysm.N, sysm.pool_kind = prog, c, N, pool_kind
    sysm.comps = {'$main': dict(entry=entry, END=END, ENDX=ENDX)}
    sysm.first_line = fn.lineno
    sysm.path = path
    cfg.simplify_cfg(prog, sysm.comps)
    return sysm


# ----------------------------------------------------------------------------- BMC encoding
class Bounds:
    def __init__(self, N, B, Wk=1, K=50, n_exact=None, B_exact=None, W_exact=None, region=None):
        self.N, self.B, self.Wk, self.K = N, B, Wk, K
        self.n_exact, self.B_exact, self.W_exact = n_exact, B_exact, W_exact
        self.region = region

    def as_dict(self):
        return dict(n_max=self.N, buffer_max=self.B, workers_max=self.Wk, steps=self.K, n=self.n_exact, buffer=self.B_exact, workers=self.W_exact)


QUERIES = ('reach', 'order', 'complete', 'deadlock', 'after_return', 'cancelled', 'error_position', 'error_position_base',
           'src_error_position', 'readahead_pulled', 'readahead_started', 'threshold')


def encode(sysm, bd, mode, free_init=False):
    """returns (solver, decode) for the negated property `mode`.
    free_init: the first state is left unconstrained (one-step induction queries, engine/bmc/induct.py); mode 'none' adds no property."""
    prog, comps, c = sysm.prog, sysm.comps, sysm.compiler
    threads = sysm.threads
    pool = sysm.pool_kind is not None
    N = sysm.N
    QC = c.QC
    K = bd.K
    s = z3.Solver()
    names = {v: typ for v, (typ, init) in prog.vars.items()}
    for q in prog.queues:
        names[q + '.len'] = 'int'
        for j in range(QC):
            names[f'{q}[{j}]'] = 'int'
    for th in threads:
        names['pc.' + th] = 'int'
        if th != '$main':
            names[f'${th}.started'] = 'bool'
    for v, typ in [('$pulled', 'int'), ('$delivered', 'int'), ('$raised', 'int'), ('$closed', 'bool'), ('$bad_order', 'bool'),
                   ('$src_failed', 'bool'), ('$late_start', 'bool')]:
        names[v] = typ
    consts = {v: z3.BitVec(v[1:], W) for v in ('$n', '$fail_at', '$close_at', '$buffer_size', '$max_workers', '$taskfail')}
    consts['$fail_kind'] = z3.BitVec('fail_kind', W)
    consts['$taskfail_kind'] = z3.BitVec('taskfail_kind', W)
    s.add(z3.Or([consts['$fail_kind'] == k for k in USER_KINDS]), z3.Or([consts['$taskfail_kind'] == k for k in USER_KINDS]))
    n, B, Wk = consts['$n'], consts['$buffer_size'], consts['$max_workers']
    for q, (kind, cap) in prog.queues.items():
        if cap is None:
            consts[q + '.cap'] = IV(0)
        elif isinstance(cap, ast.Name) and cap.id == 'buffer_size':
            consts[q + '.cap'] = B
        elif isinstance(cap, ast.Constant) and isinstance(cap.value, int):
            consts[q + '.cap'] = IV(cap.value)
        else:
            # capacity expression over the parameters, e.g. buffer_size + 1
            consts[q + '.cap'] = c.ev(cap, dict(consts))
    s.add(0 <= n, n <= bd.N, 1 <= B, B <= bd.B, consts['$fail_at'] >= -1, consts['$fail_at'] <= n,
          consts['$close_at'] >= -1, consts['$close_at'] <= n, consts['$close_at'] != 0)
    if bd.n_exact is not None:
        s.add(n == bd.n_exact)
    if bd.B_exact is not None:
        s.add(B == bd.B_exact)
    if pool:
        s.add(1 <= Wk, Wk <= bd.Wk, Wk <= B, consts['$taskfail'] >= -1, consts['$taskfail'] < n)
        if bd.W_exact is not None:
            s.add(Wk == bd.W_exact)
    else:
        s.add(Wk == 1, consts['$taskfail'] == -1, consts['$taskfail_kind'] == UEXC)

    lost_region = z3.And(consts['$taskfail'] >= 0, consts['$taskfail_kind'] == UBASE)
    if bd.region == 'exclude_lost_worker':
        s.add(z3.Not(lost_region))
    elif bd.region == 'only_lost_worker':
        s.add(lost_region)

    def mk(k):
        S = dict(consts)
        for v, typ in names.items():
            S[v] = z3.Bool(f'{v}@{k}') if typ == 'bool' else z3.BitVec(f'{v}@{k}', W)
        return S
    St = [mk(k) for k in range(K + 1)]
    S0 = St[0]
    init_cs = []
    for v, (typ, init) in prog.vars.items():
        if isinstance(init, ast.AST):
            init_cs.append(S0[v] == c.ev(init, dict(consts)))          # e.g. threading.Semaphore(buffer_size)
        else:
            init_cs.append(S0[v] == (z3.BoolVal(init) if typ == 'bool' else IV(init)))
    for q in prog.queues:
        init_cs.append(S0[q + '.len'] == 0)
    for th in threads:
        init_cs.append(S0['pc.' + th] == comps[th]['entry'])
        if th != '$main':
            init_cs.append(z3.Not(S0[f'${th}.started']))
    init_cs += [S0['$pulled'] == 0, S0['$delivered'] == 0, S0['$raised'] == 0, z3.Not(S0['$closed']), z3.Not(S0['$bad_order']),
                z3.Not(S0['$src_failed']), z3.Not(S0['$late_start'])]
    if not free_init:
        s.add(init_cs)

    def finished(S, th):
        cm = comps[th]
        return z3.Or([S['pc.' + th] == cm['END']] + [S['pc.' + th] == l for l in cm['ENDX'].values()])

    def main_done(S):
        return finished(S, '$main')

    def cond(S, e):
        g = [S['pc.' + e.thread] == e.src]
        if e.thread != '$main':
            g.append(S[f'${e.thread}.started'])
        if e.guard is not None:
            g.append(e.guard(S))
        return z3.And(g)

    def running(S):
        return z3.Sum([z3.If(S[f'st[{i}]'] == RUNNING, IV(1), IV(0)) for i in range(N)])

    nth = len(threads)
    # choice: 0..nth-1 = thread moves; nth = pool claims next queued task; nth+1+i = task i finishes; -1 = stutter
    ch = [z3.BitVec(f'ch{k}', W) for k in range(K)]
    deads = []
    for k in range(K):
        a, b = St[k], St[k + 1]
        nxt, en = {}, {}
        for th in threads:
            es = [e for e in prog.edges if e.thread == th]
            conds = [cond(a, e) for e in es]
            en[th] = z3.Or(conds) if conds else z3.BoolVal(False)
            vals = {v: a[v] for v in names}
            for e, cnd in zip(reversed(es), reversed(conds)):
                u = dict(e.upd(a))
                u['pc.' + th] = IV(e.dst)
                for v, val in u.items():
                    vals[v] = z3.If(cnd, val, vals[v])
            nxt[th] = vals
        moves = [(ti, en[th], nxt[th]) for ti, th in enumerate(threads)]
        if pool:
            deq = a['$deq']
            st_deq = c.st_get(a, deq)
            if sysm.pool_kind == 'process':
                # ProcessPoolExecutor moves up to max_workers + EXTRA_QUEUED_CALLS(1) items to the call queue and marks them RUNNING
                cap = Wk + 1
            else:
                cap = Wk
            en_start = z3.And(deq < a['$sub'], z3.Or(st_deq == CANCELLED, st_deq == KILLED, z3.And(st_deq == PENDING, running(a) < cap)))
            vs = {v: a[v] for v in names}
            vs['$deq'] = deq + 1
            for i in range(N):
                vs[f'st[{i}]'] = z3.If(z3.And(deq == i, st_deq == PENDING), IV(RUNNING), a[f'st[{i}]'])
            vs['$started'] = z3.If(st_deq == PENDING, a['$started'] + 1, a['$started'])
            vs['$late_start'] = z3.Or(a['$late_start'], z3.And(st_deq == PENDING, main_done(a)))
            moves.append((nth, en_start, vs))
            for i in range(N):
                vf = {v: a[v] for v in names}
                if sysm.pool_kind in ('mpool', 'pathos'):
                    failed = z3.If(consts['$taskfail_kind'] == UBASE, IV(LOST), IV(DONE_EXC))     # worker death: the result never arrives
                else:
                    failed = IV(DONE_EXC)                                                        # concurrent.futures transports BaseException too
                vf[f'st[{i}]'] = z3.If(consts['$taskfail'] == i, failed, IV(DONE_OK))
                moves.append((nth + 1 + i, a[f'st[{i}]'] == RUNNING, vf))
        nmoves = len(moves)
        s.add(ch[k] >= -1, ch[k] < nmoves)
        for ci, enc, _ in moves:
            s.add(z3.Implies(ch[k] == ci, enc))
        anyen = z3.Or([enc for _, enc, _ in moves])
        s.add((ch[k] == -1) == z3.Not(anyen))
        for v in names:
            expr = a[v]
            for ci, enc, vals in moves:
                if vals[v] is not a[v]:
                    expr = z3.If(ch[k] == ci, vals[v], expr)
            s.add(b[v] == expr)
        alldone = z3.And([finished(a, th) for th in threads])
        deads.append(z3.And(z3.Not(anyen), z3.Not(alldone)))
    last = St[K]
    workers = [t for t in threads if t != '$main']
    cm = comps['$main']
    all_fin = lambda S: z3.And([finished(S, th) for th in threads])
    no_fail = z3.And(consts['$fail_at'] == -1, consts['$taskfail'] == -1)
    s.vctx = dict(St=St, consts=consts, names=names, init=init_cs, ch=ch, cond=cond, threads=threads, comps=comps)
    if mode == 'none':
        pass
    elif mode == 'reach':
        s.add(all_fin(last), last['$delivered'] == n, n == bd.N, consts['$close_at'] == -1, no_fail)
    elif mode == 'deadlock':
        s.add(z3.Or(deads))
    elif mode == 'order':
        s.add(z3.Or([S['$bad_order'] for S in St]))
    elif mode == 'complete':
        s.add(consts['$close_at'] == -1, no_fail, main_done(last), z3.Or(last['$delivered'] != n, last['pc.$main'] != cm['END']))
    elif mode == 'readahead_pulled':
        s.add(z3.Or([S['$pulled'] - S['$delivered'] > B + 2 for S in St]))
    elif mode == 'readahead_tight':
        # vacuity guard of the step-bounded read-ahead claim: the read-ahead level that the implementation can actually reach
        # (single_thread_prefetch: B+2 = the stated bound; lazy_parallel_map: B+1, it pulls one element beyond a full queue)
        # is reached within K steps (must be sat), i.e. the prefixes are long enough to fill the buffer
        s.add(z3.Or([S['$pulled'] - S['$delivered'] == B + (1 if pool else 2) for S in St]))
    elif mode == 'readahead_started':
        if not pool:
            s.add(z3.BoolVal(False))
        else:
            s.add(z3.Or([S['$started'] - S['$delivered'] > B for S in St]))
    elif mode == 'threshold':
        s.add(z3.Not(all_fin(last)), z3.Not(z3.Or(deads)))
        if pool:
            pass
    elif mode == 'after_return':
        if pool:
            busy = lambda S: z3.Or([z3.Or(S[f'st[{i}]'] == RUNNING, S[f'st[{i}]'] == PENDING) for i in range(N)])
            s.add(z3.Or([z3.And(main_done(S), busy(S)) for S in St] + [S['$late_start'] for S in St]))
        else:
            s.add(z3.Or([z3.And(main_done(S), z3.Not(z3.And([finished(S, w) for w in workers]))) for S in St]))
    elif mode == 'cancelled':
        if not pool:
            s.add(z3.BoolVal(False))
        else:
            exit_locs = sorted({e.src for e in prog.edges if e.label == 'executor.__exit__'})
            at_exit = lambda S: z3.Or([S['pc.$main'] == l for l in exit_locs])
            s.add(z3.Or([z3.And(S['$closed'], at_exit(S), z3.Or([S[f'st[{i}]'] == PENDING for i in range(N)])) for S in St]))
    elif mode in ('error_position', 'error_position_base', 'error_position_lib'):
        kind = {'error_position': UEXC, 'error_position_base': UBASE, 'error_position_lib': UEMPTY}[mode]
        want = cm['ENDX'][kind]
        if pool:
            s.add(consts['$taskfail'] >= 0, consts['$taskfail_kind'] == kind, consts['$fail_at'] == -1, consts['$close_at'] == -1, main_done(last),
                  z3.Or(last['pc.$main'] != want, last['$delivered'] != consts['$taskfail']))
        else:
            s.add(consts['$fail_at'] >= 0, consts['$fail_kind'] == kind, consts['$close_at'] == -1, main_done(last),
                  z3.Or(last['pc.$main'] != want, last['$delivered'] != consts['$fail_at']))
    elif mode in ('src_error_position', 'src_error_position_base', 'src_error_position_lib'):
        kind = {'src_error_position': UEXC, 'src_error_position_base': UBASE, 'src_error_position_lib': UEMPTY}[mode]
        want = cm['ENDX'][kind]
        s.add(consts['$fail_at'] >= 0, consts['$fail_kind'] == kind, consts['$taskfail'] == -1, consts['$close_at'] == -1, main_done(last),
              z3.Or(last['pc.$main'] != want, last['$delivered'] != consts['$fail_at']))
    elif mode == 'src_error_weak':
        # weaker than src_error_position: the source failure surfaces as that same exception, nothing after the failing
        # position is delivered (order is the `order` query); used while the known finding on dropped buffered results stands
        s.add(consts['$fail_at'] >= 0, consts['$taskfail'] == -1, consts['$close_at'] == -1, main_done(last),
              z3.Or([z3.And(consts['$fail_kind'] == k, last['pc.$main'] != cm['ENDX'][k]) for k in USER_KINDS]
                    + [last['$delivered'] > consts['$fail_at']]))
    else:
        raise ValueError(mode)

    def decode(m):
        tr = []
        for k in range(K):
            ci = m[ch[k]].as_signed_long() if m[ch[k]] is not None else -1
            if 0 <= ci < nth:
                th = threads[ci]
                pc = m.eval(St[k]['pc.' + th], model_completion=True).as_signed_long()
                pc2 = m.eval(St[k + 1]['pc.' + th], model_completion=True).as_signed_long()
                labs = [(e.line, e.label, e.local) for e in prog.edges if e.thread == th and e.src == pc and e.dst == pc2
                        and z3.is_true(m.eval(cond(St[k], e), model_completion=True))]
                line, lab, loc = labs[0] if labs else (0, '?', False)
                tr.append(dict(actor=th, line=line, label=lab, local=loc))
            elif ci == nth:
                tr.append(dict(actor='pool', label='start', task=m.eval(St[k]['$deq'], model_completion=True).as_signed_long()))
            elif ci > nth:
                tr.append(dict(actor='pool', label='finish', task=ci - nth - 1))
        params = {}
        for cn, v in consts.items():
            if cn.startswith('$'):
                val = m.eval(v, model_completion=True)
                params[cn[1:]] = z3.is_true(val) if z3.is_bool(val) else val.as_signed_long()
        final = dict(delivered=m.eval(last['$delivered'], model_completion=True).as_signed_long(),
                     main_end=[k2 for k2, l in [('return', cm['END'])] + [(KNAME[kk], l) for kk, l in cm['ENDX'].items()]
                               if m.eval(last['pc.$main'], model_completion=True).as_signed_long() == l])
        return dict(params=params, trace=tr, final=final)
    return s, decode


def run_query(spec):
    """spec: dict(system='stp'|'lpm', backend, N, B, Wk, K, mode, exact..., timeout).  Runs in a worker process."""
    t0 = time.time()
    try:
        QC = spec['B'] + 1
        if spec['system'] == 'stp':
            sysm = build_stp(QC)
        else:
            sysm = build_lpm(spec['backend'], QC, spec['N'])
        bd = Bounds(spec['N'], spec['B'], spec.get('Wk', 1), spec['K'], spec.get('n_exact'), spec.get('B_exact'), spec.get('W_exact'), spec.get('region'))
        s0, decode = encode(sysm, bd, spec['mode'])
        # bit-blast + SAT is 2-10x faster than z3's default strategy on these formulas (measured: readahead_started 26 s vs 292 s);
        # VERIF_BMC_SOLVER=default selects the default solver (used to cross-check the two once per encoding change)
        if os.environ.get('VERIF_BMC_SOLVER', spec.get('solver', 'bitblast')) == 'default':
            s = s0
        else:
            s = z3.Then('simplify', 'propagate-values', 'solve-eqs', 'elim-uncnstr', 'simplify', 'bit-blast', 'sat').solver()
            s.add(s0.assertions())
        s.set('timeout', int(spec.get('timeout', 600) * 1000))
        t1 = time.time()
        r = s.check()
        out = dict(spec=spec, result=str(r), secs=round(time.time() - t1, 2), build_secs=round(t1 - t0, 2), system=sysm.describe())
        if r == z3.sat:
            out['model'] = decode(s.model())
        return out
    except cfg.Unsupported as e:
        return dict(spec=spec, result='unsupported', detail=str(e), secs=round(time.time() - t0, 2))
    except Exception as e:   # noqa
        import traceback
        return dict(spec=spec, result='error', detail=traceback.format_exc()[-1500:], secs=round(time.time() - t0, 2))
