"""Orchestrator behind `./vcheck <ID> quick|thorough`.

exit 0: nothing refuted;  exit 1 + `VIOLATION property=<id> replay=<path>`: a solver counterexample that was
replayed on the real code and is not a recorded known finding;  exit 2: harness error (vacuous condition,
shim mismatch, engine artefact, unsupported translation).
"""
import importlib
import json
import os
import shutil
import sys
import tempfile
import time

from engine import xh

VERIF = xh.VERIF
REPO = os.environ.get('VERIF_REPO', '/repo')


def log(*a):
    print(*a, flush=True)


def load_findings():
    p = os.path.join(VERIF, 'known_findings.json')
    if not os.path.exists(p):
        return []
    with open(p) as fd:
        return json.load(fd)['findings']


def save_replay(pid, payload):
    d = os.path.join(VERIF, '.work', 'replays')
    os.makedirs(d, exist_ok=True)
    k = 0
    while True:
        p = os.path.join(d, f'{pid}_{payload.get("family") or payload.get("custom")}_{k}.json')
        if not os.path.exists(p):
            break
        k += 1
    with open(p, 'w') as fd:
        json.dump(payload, fd, indent=1)
    return p


def run_property(pid, tier, seed):
    t_begin = time.time()
    os.environ.setdefault('OMP_NUM_THREADS', '1')
    os.environ.setdefault('MKL_NUM_THREADS', '1')
    for p in (VERIF, REPO):
        if p not in sys.path:
            sys.path.insert(0, p)
    nproc = int(os.environ.get('VERIF_NPROC', '16'))
    work_root = os.environ.get('VERIF_WORK') or tempfile.mkdtemp(prefix='vcheck_', dir=os.environ.get('VERIF_WORK_PARENT', '/var/tmp'))
    os.makedirs(work_root, exist_ok=True)
    os.environ['VERIF_WORK'] = work_root
    harness_errors, violations, known_lines, inconclusive = [], [], [], []
    ev = dict(property_id=pid, tier=tier, seed=seed, level='model_checking', wall_s=0.0, violations=0, assumptions=[],
              coverage=dict(states=0, transitions=0, traces_validated_against_impl=0, samples=[], exhaustive=False))
    cov = ev['coverage']
    try:
        # -------------------------------------------------- engine self-test + shim validation
        from engine import selftest
        st = selftest.run(work_root, REPO, nproc=nproc)
        log(f'[selftest] {st["summary"]}')
        cov['selftest'] = st['summary']
        if not st['ok']:
            harness_errors.append('selftest: ' + st['detail'])
            raise _Abort()
        cov['shim_vs_library_comparisons'] = st.get('validated', 0)

        h = importlib.import_module(f'harness.{pid}')
        meta = h.META
        ev['assumptions'] = list(meta.get('assumptions', []))
        cov['functions_encoded'] = meta.get('functions', [])
        cov['stubs'] = meta.get('stubs', [])
        cov['bounds'] = meta.get('bounds', {}).get(tier, '')
        cov['outside_bounds'] = meta.get('outside', [])
        cov['engine'] = meta.get('engine', '')
        findings = [f for f in load_findings() if f['property'] == pid]

        # -------------------------------------------------- E1 conditions
        fams = {f.name: f for f in getattr(h, 'FAMILIES', [])}
        jobs, cond_info = [], {}
        cdir = os.path.join(work_root, 'conds')
        os.makedirs(cdir, exist_ok=True)
        only = os.environ.get('VERIF_ONLY_FAMILY')
        for fam in fams.values():
            if only and fam.name not in only.split(','):
                continue
            for sel in fam.conditions(tier, seed):
                sel = tuple(sel)
                idx = len(jobs)
                modname = f'c_{pid}_{idx}'
                with open(os.path.join(cdir, modname + '.py'), 'w') as fd:
                    fd.write(xh.render_condition(f'harness.{pid}', fam, sel))
                tmo = fam.timeout[tier] if isinstance(fam.timeout, dict) else fam.timeout
                jobs.append(dict(idx=idx, modname=modname, timeout=tmo, path_timeout=fam.path_timeout))
                cond_info[idx] = (fam, sel)
        per_family = {}
        if jobs:
            log(f'[{pid}] {len(jobs)} conditions in {len(fams)} families, {nproc} workers')
            # longest-first is unknown; interleave families so that slow ones start early
            # thorough tier: conditions are interleaved over the families (so that a wall budget cuts every family's tail, not whole
            # families) and no condition is started after VERIF_E1_BUDGET seconds; what was not started is reported, never counted
            budget = float(os.environ.get('VERIF_E1_BUDGET', '0' if tier == 'quick' else str(meta.get('e1_budget_s', 3600)))) or None
            if budget:
                byfam = {}
                for j in jobs:
                    byfam.setdefault(cond_info[j['idx']][0].name, []).append(j)
                order, queues = [], [list(v) for v in byfam.values()]
                while any(queues):
                    for q in queues:
                        if q:
                            order.append(q.pop(0))
                jobs = order
            # scheduling hint only (never a verdict): conditions that were slow in an earlier run are started first, so that the last
            # worker does not begin a 60 s condition when all the others are idle.  hints/<pid>.json is refreshed by tools/update_hints.py.
            try:
                with open(os.path.join(VERIF, 'hints', f'{pid}.json')) as fd:
                    hint = json.load(fd)
            except (OSError, ValueError):
                hint = {}
            if hint:
                def _lab(j):
                    fam, sel = cond_info[j['idx']]
                    return f'{fam.name}{sel}'
                jobs = sorted(jobs, key=lambda j: -hint.get(_lab(j), 0.0))       # stable: unhinted conditions keep their order
            results = xh.run_conditions(jobs, cdir, REPO, nproc=nproc, log=log, budget=budget)
            try:
                os.makedirs(os.path.join(VERIF, '.work'), exist_ok=True)
                with open(os.path.join(VERIF, '.work', f'walls_{pid}_{tier}.json'), 'w') as fd:
                    json.dump({f'{cond_info[i][0].name}{cond_info[i][1]}': results[i]['wall'] for i in results}, fd)
            except OSError:
                pass
        else:
            results = {}
        if os.environ.get('VERIF_DUMP'):
            with open(os.environ['VERIF_DUMP'], 'w') as fd:
                json.dump([dict(fam=cond_info[i][0].name, sel=cond_info[i][1], **{k: v for k, v in results[i].items() if k != 'idx'})
                           for i in sorted(results)], fd, default=str)
        # replay every counterexample on the real code (shims off), in parallel
        to_replay = {}
        for idx, r in results.items():
            fam, sel = cond_info[idx]
            bad = [m for m in r['msgs'] if m[0] in ('POST_FAIL', 'EXEC_ERR', 'POST_ERR')]
            if bad:
                args = xh.parse_call_args(bad[0][1], fam.params)
                if args is not None:
                    to_replay[idx] = (fam, sel, args, 120)
            elif any(m[0] == 'HUNG' for m in r['msgs']):
                to_replay[idx] = (fam, sel, [False if t == 'bool' else 0 for _, t in fam.params], 60)
        replayed = {}
        if to_replay:
            from concurrent.futures import ThreadPoolExecutor
            with ThreadPoolExecutor(nproc) as tpe:
                futs = {idx: tpe.submit(xh.replay_concrete, f'harness.{pid}', fam.name, list(sel), args, REPO, tmo)
                        for idx, (fam, sel, args, tmo) in to_replay.items()}
                replayed = {idx: (to_replay[idx][2],) + tuple(f.result()) for idx, f in futs.items()}
        n_paths = n_z3 = n_skipped = 0
        z3t = cpu = 0.0
        samples = []
        for idx in sorted(results):
            r = results[idx]
            fam, sel = cond_info[idx]
            pf = per_family.setdefault(fam.name, dict(conditions=0, confirmed=0, refuted=0, inconclusive=0, not_started=0, paths=0,
                                                      z3_queries=0, cpu_s=0.0, desc=fam.desc))
            if r['msgs'] and r['msgs'][0][0] == 'SKIPPED':
                pf['not_started'] += 1
                n_skipped += 1
                continue
            pf['conditions'] += 1
            pf['paths'] += r['paths']
            pf['z3_queries'] += r['z3n']
            pf['cpu_s'] = round(pf['cpu_s'] + r['cpu'], 2)
            n_paths += r['paths']
            n_z3 += r['z3n']
            z3t += r['z3t']
            cpu += r['cpu']
            states = [m[0] for m in r['msgs']]
            verdict = None
            if r.get('exhausted'):
                harness_errors.append(f'random-number carrier too small in {fam.name}{sel}: {r["exhausted"]} paths were dropped because the code drew '
                                      f'more random numbers than the harness supplies')
            if not states:
                verdict = 'inconclusive'
            elif all(s == 'CONFIRMED' for s in states):
                if r['reached'] <= 0:
                    harness_errors.append(f'vacuous: {fam.name}{sel} confirmed without ever reaching its assertion')
                    verdict = 'vacuous'
                else:
                    verdict = 'confirmed'
                    pf['confirmed'] += 1
            elif any(s in ('POST_FAIL', 'EXEC_ERR', 'POST_ERR') for s in states):
                msg = [m for m in r['msgs'] if m[0] in ('POST_FAIL', 'EXEC_ERR', 'POST_ERR')][0]
                if idx not in replayed:
                    harness_errors.append(f'cannot parse counterexample of {fam.name}{sel}: {msg[1][:300]}')
                    verdict = 'error'
                else:
                    args, rv, detail = replayed[idx]
                    cov['traces_validated_against_impl'] += 1
                    if rv == 'fails':
                        verdict = 'refuted'
                        pf['refuted'] += 1
                        violations.append(dict(module=f'harness.{pid}', family=fam.name, sel=list(sel), args=args,
                                               message=msg[1][:500], detail=detail[:1500]))
                    else:
                        verdict = 'artefact'
                        harness_errors.append(f'ENGINE-ARTEFACT: {fam.name}{sel} args={args} ({msg[0]}: {msg[1][:300]}) '
                                              f'does not reproduce on the real code (replay: {rv} {detail[:200]})')
            elif any(s in ('PRE_UNSAT',) for s in states):
                harness_errors.append(f'vacuous: {fam.name}{sel}: unable to meet precondition')
                verdict = 'vacuous'
            elif any(s in ('CRASH', 'SYNTAX_ERR', 'IMPORT_ERR') for s in states):
                harness_errors.append(f'{states[0]} in {fam.name}{sel}: {r["msgs"][0][1][-800:]}')
                verdict = 'error'
            elif 'HUNG' in states:
                zero, rv, detail = replayed[idx]
                if rv == 'fails':
                    verdict = 'refuted'
                    pf['refuted'] += 1
                    violations.append(dict(module=f'harness.{pid}', family=fam.name, sel=list(sel), args=zero,
                                           message='condition did not terminate; concrete run of the same body fails', detail=detail[:1500]))
                else:
                    verdict = 'inconclusive'
            else:
                verdict = 'inconclusive'
            if verdict == 'inconclusive':
                pf['inconclusive'] += 1
                inconclusive.append(f'{fam.name}{sel}')
                log(f'INCONCLUSIVE property={pid} condition={fam.name}{sel} states={states} paths={r["paths"]} wall={r["wall"]}')
            if len(samples) < 12 and (verdict != 'confirmed' or idx % max(1, len(results) // 8) == 0):
                samples.append(dict(family=fam.name, selectors=list(sel), params=[n for n, _ in fam.params], verdict=verdict,
                                    paths=r['paths'], z3_queries=r['z3n'], cpu_s=r['cpu']))
        cov['states'] += n_paths
        cov['transitions'] += n_z3
        cov['samples'] += samples
        cov['conditions'] = len(jobs) - n_skipped
        cov['not_started_wall_budget'] = n_skipped
        cov['discharged'] = sum(p['confirmed'] for p in per_family.values())
        cov['inconclusive'] = len(inconclusive)
        cov['per_family'] = per_family
        cov['solver_time_s'] = round(z3t, 2)
        cov['cpu_s'] = round(cpu, 1)
        cov['queries'] = n_z3

        # -------------------------------------------------- confirmed conditions vs the unshimmed real code
        # A sample of conditions that the solver confirmed for *all* inputs is run concretely (real numpy / pickle / threads,
        # shims off) on two pinned input vectors; a failure there means a shim or the harness misrepresents the real code.
        import random as _random
        confirmed = [idx for idx in sorted(results) if results[idx]['msgs'] and all(m[0] == 'CONFIRMED' for m in results[idx]['msgs'])]
        _random.Random(seed).shuffle(confirmed)
        sample_idx = confirmed[:int(os.environ.get('VERIF_CONCRETE_SAMPLE', '24'))]
        if sample_idx:
            from concurrent.futures import ThreadPoolExecutor
            vecs = {}
            for idx in sample_idx:
                fam, sel = cond_info[idx]
                vecs[idx] = [[False if t == 'bool' else 0 for _, t in fam.params],
                             [bool(k % 2) if t == 'bool' else (k % 3) for k, (_, t) in enumerate(fam.params)]]
                if fam.pinned:
                    vecs[idx] += [list(v) for v in fam.pinned(sel)]
            with ThreadPoolExecutor(nproc) as tpe:
                futs = [(idx, v, tpe.submit(xh.replay_concrete, f'harness.{pid}', cond_info[idx][0].name, list(cond_info[idx][1]), v, REPO, 120))
                        for idx in sample_idx for v in vecs[idx]]
                for idx, v, f in futs:
                    rv, detail = f.result()
                    if rv in ('holds', 'rejected'):
                        cov['traces_validated_against_impl'] += 1 if rv == 'holds' else 0
                    elif rv == 'fails':
                        # the real code fails the harness body on a concrete input although the symbolic exploration confirmed the
                        # condition: an engine blind spot (e.g. CrossHair bypasses functools.lru_cache, a shim hides a library effect).
                        # The failure is real and reproducible, so it is reported as a violation with its replay file.
                        fam, sel = cond_info[idx]
                        log(f'ENGINE-BLINDSPOT property={pid} {fam.name}{sel}: confirmed symbolically, but the unshimmed concrete run on {v} fails')
                        violations.append(dict(module=f'harness.{pid}', family=fam.name, sel=list(sel), args=v,
                                               message='concrete validation run on the real code fails (the symbolic exploration had confirmed this condition: engine blind spot)',
                                               detail=detail[:1500]))
                    else:
                        fam, sel = cond_info[idx]
                        harness_errors.append(f'validation run of {fam.name}{sel} on {v} could not be evaluated: {rv} {detail[-300:]}')

        # -------------------------------------------------- other engines (E2 BMC / E3 lemmas), harness-specific
        if hasattr(h, 'extra'):
            ex = h.extra(tier, seed, dict(work=work_root, repo=REPO, nproc=nproc, log=log))
            cov['states'] += ex.get('states', 0)
            cov['transitions'] += ex.get('transitions', 0)
            cov['traces_validated_against_impl'] += ex.get('validated', 0)
            cov['solver_time_s'] = round(cov.get('solver_time_s', 0) + ex.get('solver_time_s', 0), 2)
            cov['queries'] = cov.get('queries', 0) + ex.get('queries', 0)
            cov['discharged'] = cov.get('discharged', 0) + ex.get('discharged', 0)
            cov['inconclusive'] = cov.get('inconclusive', 0) + len(ex.get('inconclusive', []))
            cov['samples'] += ex.get('samples', [])[:12]
            for k, v in ex.get('coverage', {}).items():
                cov[k] = v
            for inc in ex.get('inconclusive', []):
                inconclusive.append(inc)
                log(f'INCONCLUSIVE property={pid} condition={inc}')
            harness_errors += ex.get('harness_errors', [])
            violations += ex.get('violations', [])
            seen_kf = {}
            for kid, text in ex.get('known_lines', []):
                seen_kf.setdefault(kid, []).append(text)
            for kid, texts in seen_kf.items():
                f = [x for x in load_findings() if x['id'] == kid]
                known_lines.append(f'KNOWN-FINDING: property={pid} {kid}: {f[0]["what"] if f else ""} [{len(texts)} witness(es) reproduced, e.g. {texts[0][:200]}]')

        # -------------------------------------------------- concrete validation of bodies against the real libraries
        if hasattr(h, 'validate'):
            nval, verr = h.validate(tier)
            cov['traces_validated_against_impl'] += nval
            harness_errors += verr

        # -------------------------------------------------- known findings: witnesses
        for f in findings:
            w = f.get('witness')
            if not w:
                continue
            if 'custom' in w:
                payload = dict(w, no_carve=True)
                rv, detail = xh_custom_replay(payload)
            else:
                try:
                    wfam = {x.name: x for x in importlib.import_module(w['module']).FAMILIES}[w['family']]
                    stale = len(w['sel']) != len(wfam.selectors) or len(w['args']) != len(wfam.params)
                except Exception:   # noqa
                    stale = True
                if stale:
                    harness_errors.append(f'stale witness of {f["id"]}: it does not match the selectors / parameters of {w["module"]}.{w["family"]} any more')
                    continue
                rv, detail = xh.replay_concrete(w['module'], w['family'], w['sel'], w['args'], REPO, env_extra={'VERIF_NO_CARVE': '1'})
            cov['traces_validated_against_impl'] += 1
            if rv == 'fails' and 'TypeError' in detail and ('positional argument' in detail or 'unexpected keyword' in detail) and 'harness/' in detail:
                # the stored witness no longer matches the signature of the harness body (the harness was extended): my mistake, not a verdict
                harness_errors.append(f'stale witness of {f["id"]}: {detail[-300:]}')
                continue
            if f['status'] == 'known':
                if rv == 'fails':
                    known_lines.append(f'KNOWN-FINDING: property={pid} {f["id"]}: {f["what"]}')
                else:
                    log(f'NOTE: known finding {f["id"]} no longer reproduces (replay: {rv}); consider marking it fixed')
            elif f['status'] == 'fixed':
                if rv == 'fails':
                    violations.append(dict(w, message=f'regression of fixed finding {f["id"]}: {f["what"]}', detail=detail[:1500]))
                elif rv != 'holds':
                    harness_errors.append(f'witness of fixed finding {f["id"]} could not be replayed: {rv} {detail[:300]}')
        cov['known_findings'] = [dict(id=f['id'], status=f['status'], what=f['what']) for f in findings]
    except _Abort:
        pass
    except Exception:
        import traceback
        harness_errors.append('driver exception: ' + traceback.format_exc()[-2000:])
    finally:
        if not os.environ.get('VERIF_KEEP_WORK'):
            shutil.rmtree(work_root, ignore_errors=True)

    # ------------------------------------------------------ report
    for line in known_lines:
        log(line)
    vio_lines = []
    for v in violations:
        path = save_replay(pid, v)
        vio_lines.append(f'VIOLATION property={pid} replay={path}')
        log(f'counterexample: {json.dumps({k: v[k] for k in v if k not in ("detail",)})[:600]}')
        if v.get('detail'):
            log('  ' + ' | '.join(v['detail'].strip().splitlines()[-3:])[:400])
    for e in harness_errors:
        log(f'HARNESS-ERROR property={pid} {e}')
    ev['violations'] = len(violations)
    ev['wall_s'] = round(time.time() - t_begin, 1)
    cov['harness_errors'] = harness_errors[:20]
    cov['violations_found'] = [dict((k, v[k]) for k in v if k != 'detail') for v in violations[:10]]
    cov['known_finding_lines'] = known_lines
    if not cov['samples']:
        cov['samples'] = [dict(note='no condition was run')]
    cov['states'] = max(cov['states'], 1) if cov.get('conditions') or cov['states'] else cov['states']
    cov['explanation'] = ('states = execution paths explored by CrossHair (each decided by z3) plus BMC locations x unrolling; '
                          'transitions = z3 check() calls plus guarded commands x unrolling; traces_validated_against_impl = solver '
                          'counterexamples / witnesses / shim grids replayed on the real code')
    os.makedirs(os.path.join(VERIF, 'evidence'), exist_ok=True)
    with open(os.path.join(VERIF, 'evidence', f'{pid}.json'), 'w') as fd:
        json.dump(ev, fd, indent=1, default=str)
    log(f'[{pid}] tier={tier} conditions={cov.get("conditions", 0)} discharged={cov.get("discharged", 0)} '
        f'inconclusive={cov.get("inconclusive", 0)} not_started={cov.get("not_started_wall_budget", 0)} paths={cov["states"]} z3_queries={cov.get("queries", 0)} '
        f'violations={len(violations)} wall={ev["wall_s"]}s')
    for line in vio_lines:
        log(line)
    if vio_lines:
        return 1
    if harness_errors:
        return 2
    return 0


def xh_custom_replay(payload):
    import subprocess
    env = dict(os.environ)
    env.update(VERIF_SYMBOLIC='0', VERIF_REPO=REPO, OMP_NUM_THREADS='1', MKL_NUM_THREADS='1', PYTHONPATH=os.pathsep.join([REPO, VERIF]))
    try:
        p = subprocess.run([sys.executable, '-m', 'engine.replay', '--json', json.dumps(payload)], cwd=VERIF, env=env,
                           capture_output=True, text=True, timeout=300)
    except subprocess.TimeoutExpired:
        return 'fails', 'replay did not terminate'
    for line in p.stdout.splitlines():
        if line.startswith('REPLAY-RESULT '):
            d = json.loads(line[len('REPLAY-RESULT '):])
            return d['verdict'], d.get('detail', '')
    return 'error', (p.stdout + p.stderr)[-1500:]


class _Abort(Exception):
    pass


def main(argv):
    if len(argv) >= 2 and argv[1] == '--replay':
        from engine import replay
        return replay.main([argv[2]])
    pid = argv[0]
    tier = argv[1] if len(argv) > 1 else os.environ.get('VERIF_TIER', 'quick')
    seed = int(os.environ.get('VERIF_SEED', '0'))
    return run_property(pid, tier, seed)


if __name__ == '__main__':
    sys.exit(main(sys.argv[1:]))
