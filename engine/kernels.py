"""E3 - arithmetic kernel lemma: BatchDataset.__len__ (IEEE doubles) equals floor / ceiling division.

The function's AST (read from the repository's working tree on every run) is translated into SMT-LIB QF_BVFP:
`/` -> fp.div RNE on doubles, `np.ceil` -> fp.roundToIntegral RTP, `int` -> fp.to_sbv RTZ, `len(self.input_dataset)` -> a
64-bit bit-vector L converted with to_fp RNE.  cvc5 decides, for each constant batch size b and both drop_last values,
whether the result can differ from L div b / (L + b - 1) div b for 0 <= L < 2^k.  `unsat` = holds within the bound.
The translation is validated on every run by asking the same solver whether the SMT term can differ from the *real*
BatchDataset.__len__ on the pinned inputs L in 0..40 (must be unsat).
"""
import ast
import os
import subprocess
import tempfile
import time


class Unsupported(Exception):
    pass


def _source():
    import lazy_dataset.core as core
    with open(core.__file__) as fd:
        tree = ast.parse(fd.read())
    for node in tree.body:
        if isinstance(node, ast.ClassDef) and node.name == 'BatchDataset':
            for f in node.body:
                if isinstance(f, ast.FunctionDef) and f.name == '__len__':
                    return f
    raise Unsupported('BatchDataset.__len__ not found')


class Tr:
    """expression/statement translator; values are ('fp'|'bv'|'bool', smt-term)"""

    def __init__(self, b, drop):
        self.b, self.drop = b, drop
        self.env = {}

    def expr(self, e):
        if isinstance(e, ast.Name):
            if e.id in self.env:
                return self.env[e.id]
            raise Unsupported('name ' + e.id)
        if isinstance(e, ast.Attribute) and isinstance(e.value, ast.Name) and e.value.id == 'self':
            if e.attr == 'batch_size':
                return ('bv', f'(_ bv{self.b} 64)')
            if e.attr == 'drop_last':
                return ('bool', 'true' if self.drop else 'false')
            raise Unsupported('self.' + e.attr)
        if isinstance(e, ast.Call):
            fn = ast.unparse(e.func)
            if fn == 'len' and ast.unparse(e.args[0]) == 'self.input_dataset':
                return ('bv', 'L')
            if fn == 'int' and len(e.args) == 1:
                t, v = self.expr(e.args[0])
                if t == 'fp':
                    return ('bv', f'((_ fp.to_sbv 64) RTZ {v})')
                if t == 'bv':
                    return ('bv', v)
            if fn in ('np.ceil', 'numpy.ceil', 'math.ceil') and len(e.args) == 1:
                t, v = self.expr(e.args[0])
                v = self.tofp((t, v))
                r = f'(fp.roundToIntegral RTP {v})'
                return ('fp', r) if fn != 'math.ceil' else ('bv', f'((_ fp.to_sbv 64) RTZ {r})')
            if fn in ('np.floor', 'numpy.floor', 'math.floor') and len(e.args) == 1:
                v = self.tofp(self.expr(e.args[0]))
                r = f'(fp.roundToIntegral RTN {v})'
                return ('fp', r) if fn != 'math.floor' else ('bv', f'((_ fp.to_sbv 64) RTZ {r})')
            if fn == 'float' and len(e.args) == 1:
                return ('fp', self.tofp(self.expr(e.args[0])))
            if fn == 'bool' and len(e.args) == 1 and self.expr(e.args[0])[0] == 'bool':
                return self.expr(e.args[0])
            raise Unsupported('call ' + fn)
        if isinstance(e, ast.BinOp):
            a, b = self.expr(e.left), self.expr(e.right)
            if isinstance(e.op, ast.Div):
                return ('fp', f'(fp.div RNE {self.tofp(a)} {self.tofp(b)})')
            if isinstance(e.op, ast.FloorDiv) and a[0] == 'bv' and b[0] == 'bv':
                # Python floor division on signed operands: truncating quotient, minus one if the signs differ and there is a remainder
                q, r = f'(bvsdiv {a[1]} {b[1]})', f'(bvsrem {a[1]} {b[1]})'
                z = '(_ bv0 64)'
                adj = f'(and (not (= {r} {z})) (xor (bvslt {a[1]} {z}) (bvslt {b[1]} {z})))'
                return ('bv', f'(ite {adj} (bvsub {q} (_ bv1 64)) {q})')
            if isinstance(e.op, ast.Mod) and a[0] == 'bv' and b[0] == 'bv':
                r = f'(bvsrem {a[1]} {b[1]})'
                z = '(_ bv0 64)'
                adj = f'(and (not (= {r} {z})) (xor (bvslt {a[1]} {z}) (bvslt {b[1]} {z})))'
                return ('bv', f'(ite {adj} (bvadd {r} {b[1]}) {r})')
            if isinstance(e.op, (ast.Add, ast.Sub, ast.Mult)) and a[0] == 'bv' and b[0] == 'bv':
                op = {ast.Add: 'bvadd', ast.Sub: 'bvsub', ast.Mult: 'bvmul'}[type(e.op)]
                return ('bv', f'({op} {a[1]} {b[1]})')
            if isinstance(e.op, (ast.Add, ast.Sub, ast.Mult)):
                op = {ast.Add: 'fp.add', ast.Sub: 'fp.sub', ast.Mult: 'fp.mul'}[type(e.op)]
                return ('fp', f'({op} RNE {self.tofp(a)} {self.tofp(b)})')
            raise Unsupported('binop ' + ast.unparse(e))
        if isinstance(e, ast.UnaryOp) and isinstance(e.op, ast.Not):
            t, v = self.expr(e.operand)
            if t == 'bool':
                return ('bool', f'(not {v})')
        if isinstance(e, ast.UnaryOp) and isinstance(e.op, ast.USub):
            t, v = self.expr(e.operand)
            if t == 'bv':
                return ('bv', f'(bvneg {v})')
            if t == 'fp':
                return ('fp', f'(fp.neg {v})')
        if isinstance(e, ast.Compare) and len(e.ops) == 1:
            a, b = self.expr(e.left), self.expr(e.comparators[0])
            if a[0] == 'bv' and b[0] == 'bv':
                op = {ast.Eq: '=', ast.Lt: 'bvslt', ast.LtE: 'bvsle', ast.Gt: 'bvsgt', ast.GtE: 'bvsge'}.get(type(e.ops[0]))
                if op:
                    return ('bool', f'({op} {a[1]} {b[1]})')
                if isinstance(e.ops[0], ast.NotEq):
                    return ('bool', f'(not (= {a[1]} {b[1]}))')
        if isinstance(e, ast.IfExp):
            t, c = self.expr(e.test)
            a, b = self.expr(e.body), self.expr(e.orelse)
            if t == 'bool' and a[0] == b[0]:
                return (a[0], f'(ite {c} {a[1]} {b[1]})')
        if isinstance(e, ast.Constant) and isinstance(e.value, int) and not isinstance(e.value, bool):
            return ('bv', f'(_ bv{e.value} 64)') if e.value >= 0 else ('bv', f'(bvneg (_ bv{-e.value} 64))')
        raise Unsupported('expression ' + ast.unparse(e))

    def tofp(self, tv):
        t, v = tv
        if t == 'fp':
            return v
        if t == 'bv':
            return f'((_ to_fp 11 53) RNE {v})'
        raise Unsupported('bool as number')

    def block(self, stmts):
        """-> ('bv', term) result of the first return reached"""
        for k, s in enumerate(stmts):
            if isinstance(s, ast.Expr) and isinstance(s.value, ast.Constant):
                continue
            if isinstance(s, ast.Assign) and len(s.targets) == 1 and isinstance(s.targets[0], ast.Name):
                self.env[s.targets[0].id] = self.expr(s.value)
                continue
            if isinstance(s, ast.Return):
                t, v = self.expr(s.value)
                if t == 'fp':
                    raise Unsupported('__len__ returns a float')
                return (t, v)
            if isinstance(s, ast.If):
                t, c = self.expr(s.test)
                if t != 'bool':
                    raise Unsupported('non-boolean test')
                saved = dict(self.env)
                a = self.block(s.body + stmts[k + 1:])
                self.env = dict(saved)
                b = self.block(s.orelse + stmts[k + 1:])
                self.env = saved
                return ('bv', f'(ite {c} {a[1]} {b[1]})')
            raise Unsupported(ast.unparse(s)[:60])
        raise Unsupported('no return')


def smt_query(b, drop, bits, pinned=None):
    fn = _source()
    tr = Tr(b, drop)
    res = tr.block(fn.body)[1]
    spec = f'(bvudiv L (_ bv{b} 64))' if drop else f'(bvudiv (bvadd L (_ bv{b - 1} 64)) (_ bv{b} 64))'
    lines = ['(set-logic QF_BVFP)', '(declare-const L (_ BitVec 64))', f'(define-fun res () (_ BitVec 64) {res})']
    if pinned is None:
        lines += [f'(assert (bvult L (_ bv{1 << bits} 64)))', f'(assert (not (= res {spec})))']
    else:
        alts = ' '.join(f'(and (= L (_ bv{L} 64)) (not (= res (_ bv{v} 64))))' for L, v in pinned)
        lines += [f'(assert (or {alts}))']
    lines += ['(check-sat)', '(get-value (L res))' if pinned is None else '(get-value (L res))']
    return '\n'.join(lines) + '\n'


def run_cvc5(text, timeout):
    with tempfile.NamedTemporaryFile('w', suffix='.smt2', delete=False, dir=os.environ.get('VERIF_WORK') or None) as fd:
        fd.write(text)
        path = fd.name
    t0 = time.time()
    try:
        p = subprocess.run(['cvc5', '--produce-models', f'--tlimit={int(timeout * 1000)}', path], capture_output=True, text=True, timeout=timeout + 20)
        out = p.stdout + p.stderr
    except subprocess.TimeoutExpired:
        out = 'timeout'
    finally:
        os.unlink(path)
    secs = round(time.time() - t0, 2)
    first = out.strip().splitlines()[0].strip() if out.strip() else 'unknown'
    if '(error' in out and first not in ('sat',):
        # get-value after unsat prints an error line: only that one is harmless
        errs = [l for l in out.splitlines() if '(error' in l and 'unless immediately preceded by SAT' not in l and 'cannot get value' not in l.lower()]
        if errs:
            return 'error', secs, out[-400:]
    if first not in ('sat', 'unsat'):
        first = 'unknown'
    return first, secs, out[-400:]


def _job(spec):
    b, drop, bits, timeout = spec
    try:
        from lazy_dataset.core import BatchDataset, ListDataset
        pinned = [(L, len(BatchDataset(ListDataset([0] * L), b, drop))) for L in range(0, 41)]
        v_res, v_secs, v_out = run_cvc5(smt_query(b, drop, bits, pinned=pinned), 120)
        res, secs, out = run_cvc5(smt_query(b, drop, bits), timeout)
        return dict(b=b, drop=drop, bits=bits, validation=v_res, result=res, secs=secs, out=out if res != 'unsat' else '')
    except Unsupported as e:
        return dict(b=b, drop=drop, bits=bits, validation='unsupported', result='unsupported', secs=0, out=str(e))


def run(tier, nproc=16, log=None):
    import multiprocessing as mp
    if tier == 'quick':
        bits, bs, timeout = 16, (1, 2, 3, 4), 150
    else:
        bits, bs, timeout = 31, (1, 2, 3, 4, 5, 6, 7, 8), 900
    specs = [(b, drop, bits, timeout) for b in bs for drop in (False, True)]
    with mp.get_context('spawn').Pool(min(nproc, len(specs))) as pool:
        results = pool.map(_job, specs)
    out = dict(states=0, transitions=0, validated=0, solver_time_s=0.0, queries=2 * len(specs), discharged=0, inconclusive=[], samples=[], harness_errors=[], violations=[], coverage={})
    for r in results:
        name = f'E3 BatchDataset.__len__ b={r["b"]} drop_last={r["drop"]} L<2^{r["bits"]}'
        out['solver_time_s'] += r['secs']
        out['states'] += 1
        out['transitions'] += 1
        if r['validation'] == 'unsupported':
            # the kernel is written in a form outside the translator's subset: the lemma is not applicable to this tree (the bounded
            # E1 families of C02 still decide the property up to their length bound); reported, never counted as discharged
            out['inconclusive'].append(f'{name}: not applicable, the function is outside the translated subset ({r["out"]})')
            continue
        if r['validation'] != 'unsat':
            out['harness_errors'].append(f'{name}: the SMT term disagrees with the real function on L in 0..40 ({r["validation"]})')
            continue
        out['validated'] += 41
        if r['result'] == 'unsat':
            out['discharged'] += 2
        elif r['result'] == 'sat':
            # replay on the real code
            import re
            m = re.search(r'\(L #x([0-9a-fA-F]+)\)', r['out']) or re.search(r'\(L #b([01]+)\)', r['out'])
            L = int(m.group(1), 16 if 'x' in m.group(0) else 2) if m else None
            out['violations'].append(dict(module='harness.C02', custom='e3', family='e3', b=r['b'], drop=r['drop'], L=L,
                                          message=f'{name}: float formula differs from integer division at L={L}', detail=r['out'][-300:]))
        else:
            out['inconclusive'].append(f'{name}: cvc5 answered {r["result"]}')
        if len(out['samples']) < 6:
            out['samples'].append(dict(query=name, verdict=r['result'], solver_s=r['secs']))
    out['coverage'] = dict(e3_bound=f'0 <= L < 2^{bits}, b in {list(bs)}', e3_solver='cvc5 ' + _cvc5_version())
    out['solver_time_s'] = round(out['solver_time_s'], 1)
    return out


def _cvc5_version():
    try:
        return subprocess.run(['cvc5', '--version'], capture_output=True, text=True).stdout.split('\n')[0][:60]
    except Exception:   # noqa
        return '?'


def replay(payload):
    from lazy_dataset.core import BatchDataset, ListDataset
    L, b, drop = payload['L'], payload['b'], payload['drop']
    if L is None or L > 10 ** 7:
        class _Len:
            def __init__(self, n):
                self.n = n

            def __len__(self):
                return self.n
        src = _Len(L or 0)
    else:
        src = ListDataset([0] * L)
    got = BatchDataset(src, b, drop).__len__()
    want = L // b if drop else -(-L // b)
    return ('holds' if got == want else 'fails'), f'len={got} expected {want}'
