"""debug helper: run one condition of one family in-process.  python -m engine.one harness.C18 groupby '[1,"list","none"]' [timeout]"""
import collections, importlib, json, os, sys, time
os.environ['VERIF_SYMBOLIC'] = '1'
os.environ.setdefault('OMP_NUM_THREADS', '1'); os.environ.setdefault('MKL_NUM_THREADS', '1')
from engine import xh


def main():
    mod, famname, sel = sys.argv[1], sys.argv[2], tuple(json.loads(sys.argv[3]))
    tmo = float(sys.argv[4]) if len(sys.argv) > 4 else 60
    h = importlib.import_module(mod)
    fam = {f.name: f for f in h.FAMILIES}[famname]
    d = os.environ.get('VERIF_WORK', '/var/tmp/one'); os.makedirs(d, exist_ok=True)
    open(os.path.join(d, 'one_cond.py'), 'w').write(xh.render_condition(mod, fam, sel))
    sys.path.insert(0, d)
    from crosshair.core_and_libs import analyze_function, run_checkables
    from crosshair.options import AnalysisOptionSet, AnalysisKind
    import engine.rt as rt
    m = importlib.import_module('one_cond')
    stats = collections.Counter()
    opts = AnalysisOptionSet(per_condition_timeout=tmo, per_path_timeout=30, report_all=True, max_uninteresting_iterations=0, stats=stats,
                             analysis_kind=[AnalysisKind.PEP316])
    t0 = time.time()
    msgs = run_checkables(analyze_function(m.cond, opts))
    for x in msgs:
        print(x.state.name, x.message[:2000])
    print(dict(stats), 'reached', rt.reached_count(), f'{time.time() - t0:.1f}s')


main()
