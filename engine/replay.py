"""Concrete replay of a harness body on the real code (shims off).

usage: python -m engine.replay <file.json> | --json '<payload>'
payload: {"module": "harness.C18", "family": "sort", "sel": [...], "args": [...]}
       | {"module": "harness.C05", "custom": "<name>", ...}   (module-defined replay, e.g. a thread schedule)
prints `REPLAY-RESULT {"verdict": "holds"|"fails"|"rejected", "detail": ...}`; exit 0 holds, 1 fails, 3 rejected.
"""
import importlib
import json
import os
import sys
import traceback



def _tup(x):
    return tuple(_tup(y) for y in x) if isinstance(x, list) else x

def main(argv):
    if argv and argv[0] == '--json':
        payload = json.loads(argv[1])
    else:
        with open(argv[0]) as fd:
            payload = json.load(fd)
    os.environ['VERIF_SYMBOLIC'] = '0'
    import engine.rt as rt
    assert not rt.SYMBOLIC
    for p in (rt.VERIF, rt.REPO):
        if p not in sys.path:
            sys.path.insert(0, p)
    if payload.get('no_carve'):
        os.environ['VERIF_NO_CARVE'] = '1'
    m = importlib.import_module(payload['module'])
    if 'custom' in payload:
        verdict, detail = m.custom_replay(payload)
    else:
        fam = {f.name: f for f in m.FAMILIES}[payload['family']]
        try:
            # the `pre:` lines of the generated condition are part of the harness' precondition
            if fam.pre:
                env = {n: v for (n, _), v in zip(fam.params, payload['args'])}
                for cond in fam.pre(tuple(_tup(x) for x in payload['sel'])):
                    if not eval(cond, {}, env):
                        raise rt.Rejected()
            # structural selectors are generated as (nested) tuples; JSON turned them into lists
            r = fam.body(*[_tup(x) for x in payload['sel']], *payload['args'])
            verdict, detail = ('holds', '') if r else ('fails', 'harness body returned False')
        except rt.Rejected:
            verdict, detail = 'rejected', 'input outside the harness precondition'
        except BaseException:   # noqa
            verdict, detail = 'fails', 'unexpected exception:\n' + traceback.format_exc()[-1200:]
    print('REPLAY-RESULT ' + json.dumps(dict(verdict=verdict, detail=detail)))
    return {'holds': 0, 'fails': 1, 'rejected': 3}.get(verdict, 2)


if __name__ == '__main__':
    sys.exit(main(sys.argv[1:]))
