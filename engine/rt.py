"""Runtime helpers shared by harness bodies.

The same harness body is executed in two modes:

* symbolic (VERIF_SYMBOLIC=1): under CrossHair's tracer, with the modelling shims
  installed (pure-Python numpy / pickle contracts, serial pool contract);
* concrete (replay / validation): plain CPython, real numpy / pickle / threads.

Input carriers (Rng, failure plans, memory readings ...) are active in both modes.
"""
import json
import os
import sys

SYMBOLIC = os.environ.get('VERIF_SYMBOLIC') == '1'
VERIF = os.path.dirname(os.path.dirname(os.path.abspath(__file__)))
REPO = os.environ.get('VERIF_REPO', '/repo')

_reached = 0


def reached():
    """vacuity guard: called by a harness body right before its deciding comparison"""
    global _reached
    _reached += 1


def reached_count():
    return _reached


class Rejected(BaseException):
    """concrete mode: an `assume` failed (the input is outside the harness' precondition)"""


def assume(cond):
    """constrain the symbolic inputs from inside the body (placed before the code it constrains)"""
    if cond:
        return
    if SYMBOLIC:
        from crosshair.util import IgnoreAttempt
        raise IgnoreAttempt('assume')
    raise Rejected()


# ------------------------------------------------------------------ known findings
_KF = None


def known_findings():
    global _KF
    if _KF is None:
        p = os.path.join(VERIF, 'known_findings.json')
        try:
            with open(p) as fd:
                _KF = json.load(fd)['findings']
        except FileNotFoundError:
            _KF = []
    return _KF


def known(fid):
    """True iff finding `fid` is recorded as a known (unrepaired) defect -> its region is carved out"""
    if os.environ.get('VERIF_NO_CARVE') == '1':
        return False
    for f in known_findings():
        if f['id'] == fid and f['status'] == 'known':
            return True
    return False


# ------------------------------------------------------------------ small builders
def mk(n, xs):
    """first n of xs as a real list (n is a small concrete-or-realised int)"""
    out = []
    for k in range(len(xs)):
        if k < n:
            out.append(xs[k])
    return out


KEYS = ['k0', 'k1', 'k2', 'k3', 'k4', 'k5', 'k6', 'k7']
KEYS_B = ['m0', 'm1', 'm2', 'm3', 'm4', 'm5', 'm6', 'm7']


_exhausted = 0


def exhausted_count():
    return _exhausted


def _exhausted_carrier():
    """the code under analysis drew more random numbers than the harness supplied: the path is dropped, but counted - a condition with
    dropped paths is reported as a harness error (its carrier is too small), never as discharged"""
    global _exhausted
    _exhausted += 1
    assume(False)


class Rng:
    """Input carrier standing for "every random state".

    shuffle(arr) applies the next solver-chosen permutation, encoded as a selection
    vector r_0..r_{m-1} with 0 <= r_j < m-j (a bijection with the permutations of m
    elements, so no all-different constraint is needed); choice(k) returns the next
    solver-chosen index in [0, k).  Entries are consumed in call order, which is how
    "equally seeded generators" is expressed: two Rng objects built from the same
    vectors are equally seeded.
    """

    def __init__(self, sel=(), choices=()):
        self.sel = list(sel)
        self.choices = list(choices)
        self.log = []

    def _next_sel(self, bound):
        if len(self.sel) == 0:
            _exhausted_carrier()
        r = self.sel.pop(0)
        assume(0 <= r)
        assume(r < bound)
        return r

    def permutation_of(self, m):
        rest = list(range(m))
        out = []
        for j in range(m):
            r = self._next_sel(m - j)
            # elementary selection (no list.pop(symbolic))
            k = 0
            while k < len(rest) - 1 and k != r:
                k += 1
            out.append(rest[k])
            rest = rest[:k] + rest[k + 1:]
        return out

    def shuffle(self, arr):
        m = len(arr)
        perm = self.permutation_of(m)
        vals = [arr[i] for i in range(m)]
        for j in range(m):
            arr[j] = vals[perm[j]]
        self.log.append(('shuffle', m))

    def choice(self, a, size=None, replace=True, p=None):
        assert isinstance(a, int) or hasattr(a, '__index__'), a
        self.log.append(('choice', size, replace))
        if size is None:
            if len(self.choices) == 0:
                _exhausted_carrier()
            c = self.choices.pop(0)
            assume(0 <= c)
            assume(c < a)
            return _NpInt(_concretise(c, a))
        out = []
        for _ in range(size):
            if len(self.choices) == 0:
                _exhausted_carrier()
            c = self.choices.pop(0)
            assume(0 <= c)
            assume(c < a)
            c = _concretise(c, a)
            if not replace:
                for o in out:
                    assume(o != c)
            out.append(c)
        if SYMBOLIC:
            from engine.shims import np_shim
            return np_shim.ndarray(out)
        import numpy
        return numpy.array(out, dtype=numpy.int64)


def _concretise(c, bound):
    """elementary selection: returns the concrete int equal to the (symbolic) c in [0, bound); the solver still chooses the value (one
    path per value), but no symbolic integer flows into the code under analysis, where every later comparison would fork again"""
    k = 0
    while k < bound - 1 and k != c:
        k += 1
    return k


def _NpInt(c):
    if SYMBOLIC:
        return c
    import numpy
    return numpy.int64(c)


class global_rng:
    """rebind shuffle/choice of the *real* numpy.random module for the duration of a call:
    several signatures bake the module object into a default (rng=np.random)."""

    def __init__(self, rng):
        self.rng = rng

    def __enter__(self):
        import numpy
        self.saved = (numpy.random.shuffle, numpy.random.choice)
        numpy.random.shuffle = self.rng.shuffle
        numpy.random.choice = self.rng.choice
        return self.rng

    def __exit__(self, *a):
        import numpy
        numpy.random.shuffle, numpy.random.choice = self.saved
        return False


def install_shims(np=True, pickle=True, pool=True):
    """modelling shims, symbolic mode only"""
    if not SYMBOLIC:
        return
    import lazy_dataset.core as core
    if np:
        from engine.shims import np_shim
        core.np = np_shim
    if pickle:
        from engine.shims import pickle_shim
        core.pickle = pickle_shim
    if pool:
        from engine.shims import pool_shim
        pool_shim.install()
    # CrossHair 0.0.110 model limitations on two builtins core.py uses (both reproduced as engine artefacts):
    #  * its functools.partial patch rejects a keyword argument named `func` (ParMapDataset.__iter__(with_key=True))
    #  * its set() patch returns a ShellMutableSet for some tuples, which the unbound `set.union(*sets)` in
    #    KeyZipDataset.__init__ rejects
    from engine.shims import builtins_shim
    core.functools = builtins_shim.functools_ns
    core.set = builtins_shim.PySet
    # formatting is not the subject: exception messages of core.py embed repr(self) of the whole pipeline (textwrap.indent
    # over function reprs with memory addresses), which CrossHair models symbolically, slowly and non-deterministically
    core.Dataset.__repr__ = lambda self: '<dataset>'
    core.ProfilingDataset.__repr__ = lambda self: '<profiling dataset>'


# ------------------------------------------------------------------ memoised helpers (functools.lru_cache / functools.cache)
_MEMOS = []
_REWRAPPED = [False]


def _path_memo(fn):
    """plain-Python stand-in for functools.lru_cache: CrossHair calls lru_cache-wrapped functions *without* their cache, which makes
    state kept in a memoised helper invisible; this memo is visible to the tracer and is emptied at the beginning of every path"""
    cache = {}
    _MEMOS.append(cache)

    def wrapper(*a, **kw):
        key = (a, tuple(sorted(kw.items())))
        if key in cache:
            return cache[key]
        r = fn(*a, **kw)
        cache[key] = r
        return r
    wrapper.__wrapped__ = fn
    wrapper.cache_clear = cache.clear
    return wrapper


def begin_path():
    """called by every generated condition before the harness body (symbolic mode)"""
    if not SYMBOLIC:
        return
    if not _REWRAPPED[0]:
        _REWRAPPED[0] = True
        import functools
        import sys
        for modname in [m for m in list(sys.modules) if m == 'lazy_dataset' or m.startswith('lazy_dataset.')]:
            mod = sys.modules[modname]
            for k, v in list(vars(mod).items()):
                if isinstance(v, functools._lru_cache_wrapper):
                    setattr(mod, k, _path_memo(v.__wrapped__))
                elif isinstance(v, type) and getattr(v, '__module__', '') == modname:
                    for ak, av in list(vars(v).items()):
                        if isinstance(av, functools._lru_cache_wrapper):
                            setattr(v, ak, _path_memo(av.__wrapped__))
    for c in _MEMOS:
        c.clear()


def install_db_shims():
    """symbolic mode only: CrossHair's set() patch breaks the unbound `set.intersection(a, b)` call in database.get_examples"""
    if not SYMBOLIC:
        return
    import lazy_dataset.database as database
    from engine.shims import builtins_shim
    database.set = builtins_shim.PySet


def pin_real_floats():
    """C17 only: make CrossHair model `float` with real arithmetic (the IEEE model cannot be exhausted)"""
    if not SYMBOLIC:
        return
    from crosshair.tracers import NoTracing
    from crosshair.statespace import context_statespace
    from crosshair.libimpl.builtinslib import ModelingDirector, RealBasedSymbolicFloat
    with NoTracing():
        context_statespace().extra(ModelingDirector).global_representations[float] = RealBasedSymbolicFloat


def quiet_logging():
    import logging
    import warnings
    logging.getLogger('lazy_dataset').disabled = True
    warnings.simplefilter('ignore')
