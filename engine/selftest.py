"""Engine self-test and shim-vs-library validation, run at the start of every check."""
import itertools
import os
import sys

from engine import xh


def _families():
    from engine import selftest_bodies as b
    F = xh.Family
    one = lambda *sels: (lambda tier, seed: list(sels))
    return [
        (F('t_ceildiv', b.t_ceildiv, ['b'], [('a', 'int')], one((1,), (2,), (3,), (7,)), timeout=20), True),
        (F('t_sort3', b.t_sort3, [], [('x0', 'int'), ('x1', 'int'), ('x2', 'int')], one(()), timeout=20), True),
        (F('t_negwrap', b.t_negwrap, ['n'], [('i', 'int')], one((0,), (3,)), timeout=20), True),
        (F('f_even', b.f_even, [], [('a', 'int')], one(()), timeout=20), False),
        (F('f_strict', b.f_strict, [], [('x0', 'int'), ('x1', 'int'), ('x2', 'int')], one(()), timeout=20), False),
        (F('f_mod', b.f_mod, [], [('a', 'int')], one(()), timeout=20), False),
    ]


def validate_np_shim():
    """exhaustive small grid: shim vs real numpy"""
    import numpy as np
    from engine.shims import np_shim as sh
    n_checked = 0
    bounds = [None] + list(range(-6, 7))
    steps = [None, 1, 2, 3, -1, -2, -3]
    for n in range(0, 6):
        real = np.arange(n)
        mine = sh.arange(n)
        if list(mine) != real.tolist():
            return n_checked, f'arange({n})'
        for a, b, s in itertools.product(bounds, bounds, steps):
            sl = slice(a, b, s)
            if list(mine[sl,]) != real[sl,].tolist():
                return n_checked, f'arange({n})[{sl}]: shim {list(mine[sl,])} numpy {real[sl,].tolist()}'
            n_checked += 1
        idx = list(range(-n - 2, n + 2))
        for L in (0, 1, 2):
            for tup in itertools.product(idx, repeat=L):
                for ctor in (list, tuple):
                    item = ctor(tup)
                    try:
                        r = real[item,].tolist()
                    except IndexError:
                        r = 'IndexError'
                    try:
                        m = list(mine[item,])
                    except IndexError:
                        m = 'IndexError'
                    if r != m:
                        return n_checked, f'arange({n})[{item!r},]: shim {m} numpy {r}'
                    n_checked += 1
        for i in idx:
            try:
                r = int(real[i])
            except IndexError:
                r = 'IndexError'
            try:
                m = mine[i]
            except IndexError:
                m = 'IndexError'
            if r != m:
                return n_checked, f'arange({n})[{i}]'
            n_checked += 1
        # string index list -> IndexError in both
        for item in (['a'], ['a', 'b'], ('a',)):
            try:
                real[item,]
                r = 'ok'
            except IndexError:
                r = 'IndexError'
            try:
                mine[item,]
                m = 'ok'
            except IndexError:
                m = 'IndexError'
            if r != m:
                return n_checked, f'arange({n})[{item!r},]: shim {m} numpy {r}'
            n_checked += 1
    for a in range(-3, 6):
        for b in range(-3, 6):
            for st in (None, 1, 2, -1, -2):
                r = (np.arange(a, b) if st is None else np.arange(a, b, st)).tolist()
                m = list(sh.arange(a, b) if st is None else sh.arange(a, b, st))
                if r != m:
                    return n_checked, f'arange({a}, {b}, {st}): shim {m} numpy {r}'
                n_checked += 1
    for n in range(0, 13):
        for k in range(1, 14):
            r = [x.tolist() for x in np.array_split(np.arange(n), k)]
            m = [list(x) for x in sh.array_split(sh.arange(n), k)]
            if r != m:
                return n_checked, f'array_split(arange({n}), {k}): shim {m} numpy {r}'
            n_checked += 1
    for v in ([1, 2], (1, 2), [[1, 2]], ([1],), slice(1, 2), 3, ['a'], [], sh.arange(2)):
        rv = v if not isinstance(v, sh.ndarray) else np.arange(2)
        if sh.ndim(v) != np.ndim(rv):
            return n_checked, f'ndim({v!r})'
        n_checked += 1
    for x in (0.0, 0.5, 1.0, 1.5, 2.25, 7 / 3, 3):
        if float(sh.ceil(x)) != float(np.ceil(x)):
            return n_checked, f'ceil({x})'
        n_checked += 1
    return n_checked, None


def validate_pickle_shim():
    import pickle
    from engine.shims import pickle_shim as ps
    payloads = [0, -5, 'k0', None, True, [1, 2], (1, 2), [(1, 'a'), [2, [3]]], {'a': [1, {'b': 2}], 'c': 3}, ('k0', (1, 2)), [[1], [2, 3]]]
    n = 0
    for p in payloads:
        a = pickle.loads(pickle.dumps(p))
        b = ps.loads(ps.dumps(p))
        if a != b or type(a) != type(b):
            return n, f'pickle shim differs on {p!r}'
        n += 1
    # isolation: mutation of the loaded value must not reach the stored blob
    blob = ps.dumps({'a': [1]})
    v = ps.loads(blob)
    v['a'].append(2)
    if ps.loads(blob) != {'a': [1]}:
        return n, 'pickle shim shares structure'
    return n + 1, None


def validate_pool_shim(repo):
    """the serial contract agrees with the real functions on a few concrete runs (real threads)"""
    os.environ.setdefault('OMP_NUM_THREADS', '1')
    os.environ.setdefault('MKL_NUM_THREADS', '1')
    import lazy_dataset.parallel_utils as pu
    from engine.shims import pool_shim
    n = 0
    for src in ([], [1], [3, 1, 2], list(range(7))):
        for b in (1, 2, 4):
            if list(pu.single_thread_prefetch(iter(src), b)) != list(pool_shim.single_thread_prefetch(iter(src), b)):
                return n, f'single_thread_prefetch({src}, {b})'
            n += 1
            for w in (1, 2):
                if w > b:
                    continue
                f = lambda x: x * 2 + 1
                r = list(pu.lazy_parallel_map(f, iter(src), buffer_size=b, max_workers=w, backend='t'))
                m = list(pool_shim.lazy_parallel_map(f, iter(src), buffer_size=b, max_workers=w, backend='t'))
                if r != m:
                    return n, f'lazy_parallel_map({src}, b={b}, w={w}): real {r} shim {m}'
                n += 1
    return n, None


def run(work_root, repo, nproc=16):
    detail = []
    validated = 0
    for name, fn in (('np_shim', validate_np_shim), ('pickle_shim', validate_pickle_shim), ('pool_shim', lambda: validate_pool_shim(repo))):
        n, err = fn()
        validated += n
        if err:
            detail.append(f'{name} disagrees with the library: {err}')
    fams = _families()
    cdir = os.path.join(work_root, 'selftest')
    os.makedirs(cdir, exist_ok=True)
    jobs, info = [], {}
    for fam, expect in fams:
        for sel in fam.conditions('quick', 0):
            idx = len(jobs)
            modname = f'st_{idx}'
            with open(os.path.join(cdir, modname + '.py'), 'w') as fd:
                fd.write(xh.render_condition('engine.selftest_bodies', fam, tuple(sel)))
            jobs.append(dict(idx=idx, modname=modname, timeout=fam.timeout, path_timeout=10.0))
            info[idx] = (fam, tuple(sel), expect)
    res = xh.run_conditions(jobs, cdir, repo, nproc=min(nproc, len(jobs)))
    ok_lemmas = 0
    for idx, r in res.items():
        fam, sel, expect = info[idx]
        states = [m[0] for m in r['msgs']]
        if expect:
            if states and all(s == 'CONFIRMED' for s in states) and r['reached'] > 0:
                ok_lemmas += 1
            else:
                detail.append(f'true lemma {fam.name}{sel} not confirmed: {r["msgs"]}')
        else:
            bad = [m for m in r['msgs'] if m[0] == 'POST_FAIL']
            args = xh.parse_call_args(bad[0][1], fam.params) if bad else None
            if args is not None and fam.body(*sel, *args) is False:
                ok_lemmas += 1
            else:
                detail.append(f'false lemma {fam.name}{sel} not refuted with a reproducible counterexample: {r["msgs"]}')
    return dict(ok=not detail, detail='; '.join(detail)[:1500], validated=validated,
                summary=f'{ok_lemmas}/{len(jobs)} engine lemmas as expected, {validated} shim-vs-library comparisons')
