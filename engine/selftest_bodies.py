"""Engine self-test lemmas over the int/bool operations the harnesses rely on.
Known-true ones must come back CONFIRMED, known-false ones refuted with a counterexample
that fails concretely.  Guards against a broken CrossHair/z3 installation or model."""
from engine import rt


def t_ceildiv(b, a):
    rt.reached()
    if a < 0:
        return True
    return (a + b - 1) // b == -((-a) // b)


def t_sort3(x0, x1, x2):
    out = sorted([x0, x1, x2])
    rt.reached()
    return out[0] <= out[1] <= out[2] and sorted(out) == out


def t_negwrap(n, i):
    rt.reached()
    lst = list(range(n))
    if -n <= i < n:
        j = i if i >= 0 else i + n
        k = 0
        while k < n - 1 and k != j:
            k += 1
        return lst[k] == j
    return True


def f_even(a):
    rt.reached()
    return a // 2 * 2 == a


def f_strict(x0, x1, x2):
    out = sorted([x0, x1, x2])
    rt.reached()
    return out[0] < out[1] < out[2]


def f_mod(a):
    rt.reached()
    return a % 3 != 2 or a < 100
