"""Plain-Python stand-ins for two builtins whose CrossHair 0.0.110 models reject valid uses in core.py
(symbolic mode only; semantics identical to the originals for the calls core.py makes)."""
import functools as _functools
import types


def _partial(fn, *args, **kwargs):
    def call(*a, **kw):
        k = dict(kwargs)
        k.update(kw)
        return fn(*args, *a, **k)
    return call


functools_ns = types.SimpleNamespace(**{k: getattr(_functools, k) for k in dir(_functools) if not k.startswith('__')})
functools_ns.partial = _partial


class PySet(set):
    """`set` as a subclass: CrossHair patches calls of the builtin `set` type only"""
