"""Pure-Python contract model of exactly the numpy surface lazy_dataset/core.py uses.

Injected as `lazy_dataset.core.np` in symbolic mode only: at the C boundary CrossHair
realises symbolic values one by one, which never terminates for unbounded ints.
Everything that is not modelled delegates to the real numpy.  Validated against the
real library on every run (engine/selftest.py); replay runs with real numpy.
"""
import numpy as _real


class ndarray(list):
    """1-d integer array as a list subclass (so `isinstance(x, list)` dispatch in
    Dataset.__getitem__ sends it to SliceDataset exactly like a real index array)."""
    ndim = 1

    def __getitem__(self, item):
        if isinstance(item, tuple):
            if len(item) != 1:
                raise IndexError('too many indices for array')
            (item,) = item
        if isinstance(item, slice):
            return ndarray(_slice_list(self, item))
        if isinstance(item, (list, tuple)):
            n = len(self)
            out = ndarray()
            for i in item:
                if isinstance(i, str):
                    raise IndexError('only integers, slices (`:`), ellipsis (`...`), numpy.newaxis (`None`) '
                                     'and integer or boolean arrays are valid indices')
                if isinstance(i, bool) or not isinstance(i, int):
                    raise NotImplementedError('np_shim: index element ' + repr(type(i)))
                out.append(_at(self, i, n))
            return out
        if isinstance(item, str):
            raise IndexError('only integers, slices (`:`), ellipsis (`...`), numpy.newaxis (`None`) '
                             'and integer or boolean arrays are valid indices')
        return _at(self, item, len(self))

    def tolist(self):
        return list(self)

    @property
    def flags(self):
        """settable flags object (`a.flags.writeable = False`); write protection itself is not modelled - the code under analysis only reads index arrays"""
        import types
        return self.__dict__.setdefault('_flags', types.SimpleNamespace(writeable=True, owndata=True, c_contiguous=True, f_contiguous=True, aligned=True))

    class _DType:
        kind = 'i'
        name = 'int64'

    dtype = _DType()

    @property
    def size(self):
        return len(self)

    @property
    def shape(self):
        return (len(self),)

    def min(self):
        m = list.__getitem__(self, 0)
        for v in self:
            if v < m:
                m = v
        return m

    def max(self):
        m = list.__getitem__(self, 0)
        for v in self:
            if v > m:
                m = v
        return m

    def copy(self):
        return ndarray(list(self))


def _at(lst, i, n):
    if i < -n or i >= n:
        raise IndexError('index is out of bounds for axis 0')   # no formatting: it would realise a symbolic index
    if i < 0:
        i = i + n
    # elementary selection: forks on comparisons instead of realising at list.__getitem__
    k = 0
    while k < n - 1 and k != i:
        k += 1
    return list.__getitem__(lst, k)


def _slice_indices(sl, n):
    step = 1 if sl.step is None else sl.step
    if step == 0:
        raise ValueError('slice step cannot be zero')
    if step > 0:
        lo, hi = 0, n
    else:
        lo, hi = -1, n - 1

    def norm(v):
        if v < 0:
            v = v + n
            if v < lo:
                v = lo
        elif v > hi:
            v = hi
        return v
    if step > 0:
        start = 0 if sl.start is None else norm(sl.start)
        stop = n if sl.stop is None else norm(sl.stop)
    else:
        start = n - 1 if sl.start is None else norm(sl.start)
        stop = -1 if sl.stop is None else norm(sl.stop)
    return start, stop, step


def _slice_list(lst, sl):
    n = len(lst)
    start, stop, step = _slice_indices(sl, n)
    out = []
    # iterate over concrete positions; membership decided by comparisons
    if step > 0:
        for i in range(n):
            if i >= start and i < stop and (i - start) % step == 0:
                out.append(list.__getitem__(lst, i))
    else:
        for i in range(n - 1, -1, -1):
            if i <= start and i > stop and (start - i) % (-step) == 0:
                out.append(list.__getitem__(lst, i))
    return out


def arange(start, stop=None, step=None, dtype=None):
    """dtype: an integer dtype is accepted and ignored - the contract model has unbounded integers, so the wrap-around of a narrow index
    dtype (>= 128 elements) is outside what the model can show (stated in the evidence of the checks that use the shim); any other
    dtype is outside the modelled surface"""
    if dtype is not None and _real.dtype(dtype).kind not in 'iu':
        raise NotImplementedError('np_shim.arange: non-integer dtype')
    if stop is None:
        start, stop = 0, start
    if step is None:
        step = 1
    if step == 0:
        raise ZeroDivisionError('Maximum allowed size exceeded')
    out = ndarray()
    i = start
    if step > 0:
        while i < stop:
            out.append(i)
            i += step
    else:
        while i > stop:
            out.append(i)
            i += step
    return out


def ndim(x):
    if isinstance(x, ndarray):
        return 1
    if isinstance(x, _real.ndarray):
        return x.ndim
    if isinstance(x, (list, tuple)):
        if len(x) and isinstance(x[0], (list, tuple, ndarray)):
            return 2
        return 1
    return 0


def array_split(arr, sections):
    n = len(arr)
    if sections <= 0:
        raise ValueError('number sections must be larger than 0.')
    q, r = n // sections, n % sections
    out = []
    pos = 0
    k = 0
    while k < sections:
        size = q + 1 if k < r else q
        part = ndarray()
        for j in range(n):
            if j >= pos and j < pos + size:
                part.append(list.__getitem__(arr, j))
        out.append(part)
        pos = pos + size
        k += 1
    return out


def ceil(x):
    if isinstance(x, int):
        return float(x)
    i = int(x)
    if i < x:
        i = i + 1
    return float(i)


def asarray(x, dtype=None):
    if isinstance(x, ndarray):
        return x                      # numpy semantics: no copy for an array of the right type
    if isinstance(x, (list, tuple)) and all(isinstance(v, int) and not isinstance(v, bool) for v in x):
        return ndarray(list(x))
    return _real.asarray(x) if dtype is None else _real.asarray(x, dtype=dtype)


def __getattr__(name):
    return getattr(_real, name)
