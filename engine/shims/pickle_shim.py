"""Contract model of pickle.dumps / pickle.loads for the payload shapes the harnesses use:
a structural deep copy (real pickle.dumps on a CrossHair symbolic int raises).  Symbolic
mode only; C09 / C11 / C19, whose subject is the real serialisation, do not use it."""


class _Blob:
    def __init__(self, v):
        self.v = v


def _dc(v):
    if isinstance(v, list):
        return [_dc(x) for x in v]
    if isinstance(v, tuple):
        return tuple(_dc(x) for x in v)
    if isinstance(v, dict):
        return {k: _dc(x) for k, x in v.items()}
    return v   # ints / bools / str / None: immutable


def dumps(v, protocol=None):
    return _Blob(_dc(v))


def loads(b):
    return _dc(b.v)
