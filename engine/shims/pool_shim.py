"""Serial contracts of parallel_utils.lazy_parallel_map / single_thread_prefetch.

CrossHair cannot run threads.  Assume/guarantee split: engine E2 (bmc) discharges, on the
real source of both functions, that they deliver f(e) for every e of the source, in order,
exactly once and raise at the failing position; E1 harnesses use exactly that contract.
Call arguments are recorded so wrong forwarding of buffer_size / max_workers / backend by
core.py is still visible.  Symbolic mode only; replay uses the real functions."""
CALLS = []

PROCESS_BACKENDS = ('mp', 'dill_mp', 'multiprocessing', 'concurrent_mp')


def _transport(v):
    """what crosses a process boundary arrives as a pickled copy: containers are rebuilt, immutable scalars keep their value, an
    instance of a plain class arrives as a *new* object (identity is lost) unless it pickles by reference (a class, a function, a
    module-level singleton whose __reduce__ returns its global name)"""
    if isinstance(v, list):
        return [_transport(x) for x in v]
    if isinstance(v, tuple):
        return tuple(_transport(x) for x in v)
    if isinstance(v, dict):
        return {_transport(k): _transport(x) for k, x in v.items()}
    if type(v) is object:
        return object()
    if isinstance(v, BaseException):
        # exceptions are rebuilt from (class, args)
        try:
            return type(v)(*[_transport(a) for a in v.args])
        except Exception:   # noqa
            return v
    red = getattr(type(v), '__reduce__', None)
    if red is not None and red is not object.__reduce__ and not isinstance(v, (int, str, bytes, float, bool, type(None))):
        try:
            r = v.__reduce__()
        except Exception:   # noqa
            r = None
        if isinstance(r, str):
            return v          # pickled by reference to a module-level name: the same object on the other side
    return v


def lazy_parallel_map(function, generator, *, args=None, kwargs=None, backend='t', buffer_size=5, max_workers=2):
    CALLS.append(('lazy_parallel_map', backend, buffer_size, max_workers))

    def gen(args=args, kwargs=kwargs):
        if kwargs is None:
            kwargs = {}
        if args is None:
            args = []
        if backend is not False:
            assert buffer_size >= max_workers
        assert buffer_size > 0
        proc = backend in PROCESS_BACKENDS
        for ele in generator:
            if proc:
                # process pools: the task arguments and the result (or the exception) cross a process boundary
                try:
                    res = function(_transport(ele), *args, **kwargs)
                except Exception as e:   # noqa
                    raise _transport(e)
                yield _transport(res)
            else:
                yield function(ele, *args, **kwargs)
    return gen()


def single_thread_prefetch(generator, buffer_size):
    CALLS.append(('single_thread_prefetch', buffer_size))

    def gen():
        for ele in generator:
            yield ele
    return gen()


def install():
    import lazy_dataset.parallel_utils as pu
    pu.lazy_parallel_map = lazy_parallel_map
    pu.single_thread_prefetch = single_thread_prefetch
