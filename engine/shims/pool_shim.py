"""Serial contracts of parallel_utils.lazy_parallel_map / single_thread_prefetch.

CrossHair cannot run threads.  Assume/guarantee split: engine E2 (bmc) discharges, on the
real source of both functions, that they deliver f(e) for every e of the source, in order,
exactly once and raise at the failing position; E1 harnesses use exactly that contract.
Call arguments are recorded so wrong forwarding of buffer_size / max_workers / backend by
core.py is still visible.  Symbolic mode only; replay uses the real functions."""
CALLS = []


def lazy_parallel_map(function, generator, *, args=None, kwargs=None, backend='t', buffer_size=5, max_workers=2):
    CALLS.append(('lazy_parallel_map', backend, buffer_size, max_workers))

    def gen(args=args, kwargs=kwargs):
        if kwargs is None:
            kwargs = {}
        if args is None:
            args = []
        if backend is not False:
            assert buffer_size >= max_workers
        assert buffer_size > 0
        for ele in generator:
            yield function(ele, *args, **kwargs)
    return gen()


def single_thread_prefetch(generator, buffer_size):
    CALLS.append(('single_thread_prefetch', buffer_size))

    def gen():
        for ele in generator:
            yield ele
    return gen()


def install():
    import lazy_dataset.parallel_utils as pu
    pu.lazy_parallel_map = lazy_parallel_map
    pu.single_thread_prefetch = single_thread_prefetch
