"""Shared pipeline universe (DESIGN.md section 3): op alphabet, builder of the real pipeline,
and an eager reference interpreter on plain lists that also tracks capabilities.

A *program* is (backing, n, ops): source of n symbolic ints (list- or dict-backed) followed by
a tuple of op codes.  Structure is concrete; every numeric parameter (example values, map
offsets, thresholds, slice bounds, index-list entries, rng selections) is drawn in order from
a pool of symbolic ints.  The reference uses elementary operations only.
"""
import itertools

import lazy_dataset
from lazy_dataset import core
from lazy_dataset.core import ListDataset, DictDataset

from engine import rt

NPOOL = 8             # symbolic ints available to the ops of one program (offsets, thresholds, bounds, index entries)
NR = 8                # rng selection entries available to the shuffles of one program
NX, NY = 4, 3         # source A values, source B values
POOL_PARAMS = ([(f'x{i}', 'int') for i in range(NX)] + [(f'y{i}', 'int') for i in range(NY)] + [(f'q{i}', 'int') for i in range(NPOOL)]
               + [(f'r{i}', 'int') for i in range(NR)])


def split_params(args):
    """positional symbolic args in POOL_PARAMS order -> (xs, ys, qs, rs, rest)"""
    a = list(args)
    return a[:NX], a[NX:NX + NY], a[NX + NY:NX + NY + NPOOL], a[NX + NY + NPOOL:NX + NY + NPOOL + NR], a[NX + NY + NPOOL + NR:]


class Refusal(Exception):
    """raised by the builder when the real code refuses a composition"""


class Pool:
    def __init__(self, qs):
        self.qs = list(qs)
        self.pos = 0

    def take(self):
        rt.assume(self.pos < len(self.qs))   # structurally impossible for generated programs (checked by budget())
        v = self.qs[self.pos]
        self.pos += 1
        return v


# ----------------------------------------------------------------------------- value helpers (user functions)
def leaf(v):
    """leading int leaf of a (possibly nested) example"""
    while isinstance(v, (tuple, list)):
        if len(v) == 0:
            return 0
        # items() pairs are (key, value): skip the string key
        v = v[1] if (len(v) == 2 and isinstance(v[0], str)) else v[0]
    return v


def addc(v, c):
    if isinstance(v, tuple):
        return tuple(addc(x, c) for x in v)
    if isinstance(v, list):
        return [addc(x, c) for x in v]
    if isinstance(v, str):
        return v
    return v + c


class UserFns:
    """the user functions of one program; optionally logging every application (C08)"""

    def __init__(self, log=None):
        self.log = log
        self.nstage = 0

    def _stage(self):
        self.nstage += 1
        return self.nstage

    def map_add(self, c):
        sid = self._stage()
        log = self.log

        def f(ex):
            if log is not None:
                log.append((sid, 'map', ex))
            return addc(ex, c)
        return f

    def pred_gt(self, t):
        sid = self._stage()
        log = self.log

        def p(ex):
            if log is not None:
                log.append((sid, 'filter', ex))
            return leaf(ex) > t
        return p

    def sort_key(self):
        sid = self._stage()
        log = self.log

        def k(ex):
            if log is not None:
                log.append((sid, 'sortkey', ex))
            return leaf(ex)
        return k


# ----------------------------------------------------------------------------- reference state
class Ref:
    def __init__(self, vals, keys, has_len=True, indexable=True, has_keys=None, has_items=None, iter_ok=True, infinite=False):
        self.vals = vals                      # expected example sequence
        self.keys = keys                      # key per example or None
        self.has_len = has_len
        self.indexable = indexable
        self.has_keys = (keys is not None) if has_keys is None else has_keys
        self.has_items = (keys is not None) if has_items is None else has_items
        self.iter_ok = iter_ok                # False: iteration must be refused loudly
        self.infinite = infinite
        self.sorted_stage = False

    def clone(self, **kw):
        r = Ref(self.vals, self.keys, self.has_len, self.indexable, self.has_keys, self.has_items, self.iter_ok, self.infinite)
        for k, v in kw.items():
            setattr(r, k, v)
        return r


def keys_unique(keys):
    return keys is not None and len(set(keys)) == len(keys)


def ref_slice_positions(n, a, b, step):
    """positions selected by slice(a, b, step) over range(n); elementary arithmetic only"""
    if step is None:
        step = 1
    out = []
    if step > 0:
        if a is None:
            a = 0
        elif a < 0:
            a = a + n
            if a < 0:
                a = 0
        elif a > n:
            a = n
        if b is None:
            b = n
        elif b < 0:
            b = b + n
            if b < 0:
                b = 0
        elif b > n:
            b = n
        for i in range(n):
            if a <= i and i < b and (i - a) % step == 0:
                out.append(i)
    else:
        if a is None:
            a = n - 1
        elif a < 0:
            a = a + n
            if a < -1:
                a = -1
        elif a > n - 1:
            a = n - 1
        if b is None:
            b = -1
        elif b < 0:
            b = b + n
            if b < -1:
                b = -1
        elif b > n - 1:
            b = n - 1
        for i in range(n - 1, -1, -1):
            if i <= a and i > b and (a - i) % (-step) == 0:
                out.append(i)
    return out


def ref_select(ref, positions):
    vals = [ref.vals[p] for p in positions]
    keys = [ref.keys[p] for p in positions] if ref.keys is not None else None
    hk = ref.has_keys and keys is not None
    if keys is not None and ref.has_items and not ref.has_keys:
        # duplicate keys upstream: keys() of the slice consults upstream keys() -> refuses; items() too
        return ref.clone(vals=vals, keys=keys, has_keys=False, has_items=False)
    return ref.clone(vals=vals, keys=keys, has_keys=hk, has_items=ref.has_items and hk)


def ref_array_split_sizes(n, k):
    q, r = n // k, n % k
    return [q + 1 if j < r else q for j in range(k)]


def intersperse_order(lens):
    """[(dataset_idx, example_idx)] ascending by (i+1)/len with exact fractions, ties by dataset then example index"""
    entries = [(d, i) for d, L in enumerate(lens) for i in range(L)]
    out = []
    # selection sort with cross-multiplied comparison
    rest = list(entries)
    while rest:
        best = 0
        for j in range(1, len(rest)):
            d1, i1 = rest[j]
            d0, i0 = rest[best]
            lhs = (i1 + 1) * lens[d0]
            rhs = (i0 + 1) * lens[d1]
            if lhs < rhs or (lhs == rhs and (d1, i1) < (d0, i0)):
                best = j
        out.append(rest[best])
        rest = rest[:best] + rest[best + 1:]
    return out


# ----------------------------------------------------------------------------- op alphabet
SLICE_FORMS = {          # name: (start symbolic?, stop symbolic?, step)
    'ab': (True, True, None), 'a_': (True, False, None), '_b': (False, True, None), 'ab2': (True, True, 2),
    'abm1': (True, True, -1), 'm1': (False, False, -1), 'abm2': (True, True, -2), 'ab1': (True, True, 1),
    'all': (False, False, None), 'm2': (False, False, -2),
}


def op_class(op):
    return op[0]


def op_budget(op):
    """number of pool ints an op consumes (upper bound)"""
    k = op[0]
    if k in ('map', 'filt', 'efilt', 'parmap'):
        return 1
    if k == 'sl':
        f = SLICE_FORMS[op[1]]
        return int(f[0]) + int(f[1])
    if k in ('idx', 'nparr'):
        return op[1]
    return 0


def budget(ops):
    return sum(op_budget(o) for o in ops)


ALPHABET_QUICK = [
    ('map',), ('filt',), ('efilt',),
    ('sl', 'ab'), ('sl', 'abm1'), ('sl', 'ab2'), ('sl', 'm1'),
    ('idx', 2), ('idx', 0), ('keys', (1, 0)),
    ('cat_self',), ('cat_b',), ('isp_b',), ('zip_b',), ('kzip_b', 1),
    ('batch', 2, False), ('batch', 2, True), ('unbatch',), ('items',), ('tile', 2),
    ('shuffle',), ('sort', False), ('sort_nokey', True), ('split', 2, 1), ('cache',), ('ecache',), ('catch',),
    ('copy',), ('fcopy',), ('pf1', 2), ('pfw', 2, 2), ('parmap', 2, 2),
]
ALPHABET_MORE = [
    ('sl', 'a_'), ('sl', '_b'), ('sl', 'abm2'), ('sl', 'ab1'), ('sl', 'all'), ('sl', 'm2'), ('idx', 1), ('nparr', 2),
    ('keys', ()), ('keys', (0,)), ('keys', (0, 0)), ('isp_self',), ('zip_self',), ('kzip_b', 0),
    ('batch', 1, False), ('batch', 3, False), ('batch', 3, True), ('tile', 1), ('tile', 3), ('sort', True), ('sort_nokey', False),
    ('split', 1, 0), ('split', 2, 0), ('split', 3, 2), ('shard', 2, 0), ('shard', 3, 1), ('pf1', 1), ('pfw', 2, 3), ('pfw', 1, 1, 'thread'),
    ('isp3', 3, 4), ('isp3', 3, 5), ('isp3', 5, 2), ('isp3', 1, 3),
    ('parmap', 1, 1),
    ('zip1',), ('cat0',), ('isp0',),
]
ALPHABET = ALPHABET_QUICK + ALPHABET_MORE


def max_len(n, ops):
    """structural upper bound of the length after ops (for index probes)"""
    L = n
    for op in ops:
        k = op[0]
        if k in ('cat_self',):
            L = 2 * L
        elif k in ('cat_b', 'isp_b'):
            L = L + NY
        elif k == 'isp3':
            L = L + op[1] + op[2]
        elif k == 'isp_self':
            L = 2 * L
        elif k == 'tile':
            L = L * op[1]
        elif k in ('idx', 'nparr'):
            L = op[1]
        elif k == 'keys':
            L = len(op[1])
    return L


# ----------------------------------------------------------------------------- builder
REFUSALS = (RuntimeError, AssertionError, TypeError, NotImplementedError, core.ItemsNotDefined, IndexError, KeyError, ValueError)


class Built:
    def __init__(self, ds, ref, fns, rng):
        self.ds, self.ref, self.fns, self.rng = ds, ref, fns, rng


def make_source(backing, n, xs, keys=None, wrap=None):
    vals = rt.mk(n, xs)
    if backing == 'dict':
        keys = list(keys or rt.KEYS)[:len(vals)]
        d = {k: v for k, v in zip(keys, vals)}
        if wrap is not None:
            d = wrap(d)
        return DictDataset(d), Ref(list(vals), list(keys))
    lst = list(vals)
    if wrap is not None:
        lst = wrap(lst)
    return ListDataset(lst), Ref(list(vals), None)


def make_b(ref, ys, mode):
    """second source for binary ops.  mode: 'disjoint' (NY examples, own keys), 'zip' (same length), 'kzip' (same key set)"""
    if mode == 'disjoint':
        vals = list(ys)[:NY]
        if ref.keys is not None:
            keys = rt.KEYS_B[:len(vals)]
            return DictDataset(dict(zip(keys, vals))), Ref(vals, list(keys))
        return ListDataset(vals), Ref(vals, None)
    if mode == 'zip':
        vals = [ys[j % NY] for j in range(len(ref.vals))]
        return ListDataset(vals), Ref(vals, None)
    raise ValueError(mode)


def apply_op(ds, ref, op, pool, ys, fns, rng):
    """returns (ds2, ref2).  raises Refusal if the real code refuses; the caller compares with `expect_refusal`"""
    k = op[0]
    R = ref
    if k == 'map':
        c = pool.take()
        return ds.map(fns.map_add(c)), R.clone(vals=[addc(v, c) for v in R.vals])
    if k == 'parmap':
        c = pool.take()
        out = ds.map(fns.map_add(c), num_workers=op[1], buffer_size=op[2])
        return out, R.clone(vals=[addc(v, c) for v in R.vals])
    if k == 'filt':
        t = pool.take()
        keep = [i for i in range(len(R.vals)) if leaf(R.vals[i]) > t] if R.iter_ok else []
        r2 = Ref([R.vals[i] for i in keep], [R.keys[i] for i in keep] if R.keys is not None else None,
                 has_len=False, indexable=False, has_keys=False, has_items=R.has_items, iter_ok=R.iter_ok)
        return ds.filter(fns.pred_gt(t)), r2
    if k == 'efilt':
        t = pool.take()
        if not (R.indexable and R.iter_ok and R.has_len):
            return _must_refuse(lambda: ds.filter(fns.pred_gt(0), lazy=False), R)
        keep = [i for i in range(len(R.vals)) if leaf(R.vals[i]) > t]
        return ds.filter(fns.pred_gt(t), lazy=False), ref_select(R, keep)
    if k == 'sl':
        sa, sb, step = SLICE_FORMS[op[1]]
        a = pool.take() if sa else None
        b = pool.take() if sb else None
        if not (R.indexable and R.has_len):
            return _must_refuse(lambda: ds[slice(0 if sa else None, 1 if sb else None, step)], R)
        return ds[slice(a, b, step)], ref_select(R, ref_slice_positions(len(R.vals), a, b, step))
    if k in ('idx', 'nparr'):
        ent = [pool.take() for _ in range(op[1])]
        n = len(R.vals)
        if k == 'nparr':
            if rt.SYMBOLIC:
                from engine.shims import np_shim
                item = np_shim.ndarray(ent)
            else:
                import numpy
                item = numpy.array(ent, dtype=numpy.int64)
        else:
            item = list(ent)
        bad = False
        for e in ent:
            if e < -n or e >= n:
                bad = True
        if not (R.indexable and R.has_len):
            return _must_refuse(lambda: ds[[0] * len(ent)], R)
        if bad:
            return _must_refuse(lambda: ds[item], R)
        pos = [e if e >= 0 else e + n for e in ent]
        return ds[item], ref_select(R, pos)
    if k == 'keys':
        if not (R.has_keys and R.indexable and R.has_len):
            # an empty key list is an ordinary empty index list
            if len(op[1]) == 0 and R.indexable and R.has_len:
                return ds[[]], ref_select(R, [])
            return _must_refuse(lambda: ds[[rt.KEYS[j] for j in op[1]] or []], R)
        want = [rt.KEYS[j] for j in op[1]]
        pos = []
        for kname in want:
            if kname not in R.keys:
                return _must_refuse(lambda: ds[want], R)
            pos.append(R.keys.index(kname))
        return ds[want], ref_select(R, pos)
    if k in ('cat_self', 'cat_b', 'tile'):
        if k == 'cat_self':
            parts_ref = [R, R]
            out = ds.concatenate(ds)
        elif k == 'cat_b':
            dsb, rb = make_b(R, ys, 'disjoint')
            parts_ref = [R, rb]
            out = ds.concatenate(dsb)
        else:
            parts_ref = [R] * op[1]
            out = ds.tile(op[1])
        if len(parts_ref) == 1:
            return out, R
        return out, ref_concat(parts_ref)
    if k in ('isp_b', 'isp_self'):
        if k == 'isp_b':
            dsb, rb = make_b(R, ys, 'disjoint')
        else:
            dsb, rb = ds, R
        if not (R.has_len and len(R.vals) > 0 and len(rb.vals) > 0):
            return _must_refuse(lambda: ds.intersperse(dsb), R)
        out = ds.intersperse(dsb)
        order = intersperse_order([len(R.vals), len(rb.vals)])
        parts = [R, rb]
        cat = ref_concat(parts)
        vals = [parts[d].vals[i] for d, i in order]
        keys = [parts[d].keys[i] for d, i in order] if cat.keys is not None else None
        return out, cat.clone(vals=vals, keys=keys)
    if k == 'isp3':
        # intersperse(ds, B, C): B has op[1] and C has op[2] examples (values cycle through ys; own keys)
        lb, lc = op[1], op[2]
        bv = [ys[j % NY] for j in range(lb)]
        cv = [ys[(j + 1) % NY] for j in range(lc)]
        if R.keys is not None:
            dsb, rb = DictDataset({f'b{j}': v for j, v in enumerate(bv)}), Ref(bv, [f'b{j}' for j in range(lb)])
            dsc, rc = DictDataset({f'c{j}': v for j, v in enumerate(cv)}), Ref(cv, [f'c{j}' for j in range(lc)])
        else:
            dsb, rb = ListDataset(bv), Ref(bv, None)
            dsc, rc = ListDataset(cv), Ref(cv, None)
        if not (R.has_len and len(R.vals) > 0):
            return _must_refuse(lambda: ds.intersperse(dsb, dsc), R)
        out = ds.intersperse(dsb, dsc)
        parts = [R, rb, rc]
        order = intersperse_order([len(p.vals) for p in parts])
        cat = ref_concat(parts)
        vals = [parts[d].vals[i] for d, i in order]
        keys = [parts[d].keys[i] for d, i in order] if cat.keys is not None else None
        return out, cat.clone(vals=vals, keys=keys)
    if k == 'zip1':
        # zip over exactly one dataset: the eager reference is list(zip(xs)) == [(x,) for x in xs]
        if not R.has_len:
            return _must_refuse(lambda: ds.zip(), R)
        return ds.zip(), Ref([(v,) for v in R.vals], None, has_len=True, indexable=R.indexable, has_keys=False, has_items=False, iter_ok=R.iter_ok)
    if k == 'cat0':
        return ds.concatenate(), R         # concatenation with nothing: the dataset itself
    if k == 'isp0':
        return ds.intersperse(), R
    if k in ('zip_b', 'zip_self'):
        if k == 'zip_b':
            dsb, rb = make_b(R, ys, 'zip')
        else:
            dsb, rb = ds, R
        if not R.has_len:
            return _must_refuse(lambda: ds.zip(dsb), R)
        out = ds.zip(dsb)
        vals = [(R.vals[i], rb.vals[i]) for i in range(len(R.vals))]
        return out, Ref(vals, None, has_len=True, indexable=R.indexable and rb.indexable, has_keys=False, has_items=False, iter_ok=R.iter_ok)
    if k == 'kzip_b':
        if not (R.has_keys and R.keys is not None):
            dsb = ds
            return _must_refuse(lambda: ds.key_zip(dsb), R)
        # B: same key set, stored in reversed (op[1]==1) or equal order, values ys
        order = list(range(len(R.keys)))
        if op[1] == 1:
            order = order[::-1]
        bvals = {R.keys[j]: ys[j % NY] for j in order}
        dsb = DictDataset(bvals)
        out = ds.key_zip(dsb)
        vals = [(R.vals[i], bvals[R.keys[i]]) for i in range(len(R.vals))]
        return out, R.clone(vals=vals)
    if k == 'batch':
        bs, drop = op[1], op[2]
        out = ds.batch(bs, drop_last=drop)
        vals = []
        cur = []
        for v in R.vals:
            cur.append(v)
            if len(cur) >= bs:
                vals.append(cur)
                cur = []
        if cur and not drop:
            vals.append(cur)
        return out, Ref(vals, None, has_len=R.has_len, indexable=R.indexable, has_keys=False, has_items=False, iter_ok=R.iter_ok)
    if k == 'unbatch':
        out = ds.unbatch()
        ok = R.iter_ok
        vals = []
        for v in R.vals:
            if not isinstance(v, (list, tuple)):
                ok = False
                break
            vals.extend(list(v))
        return out, Ref(vals if ok else [], None, has_len=False, indexable=False, has_keys=False, has_items=False, iter_ok=ok)
    if k == 'items':
        out = ds.items()
        if not R.has_items:
            return out, R.clone(vals=[], iter_ok=False)
        vals = [(R.keys[i], R.vals[i]) for i in range(len(R.vals))]
        return out, R.clone(vals=vals)
    if k == 'shuffle':
        if not (R.has_len and R.indexable):
            return _must_refuse(lambda: ds.shuffle(False, rng=rng), R)
        perm = rng_peek_permutation(rng, len(R.vals))
        out = ds.shuffle(False, rng=rng)
        return out, ref_select(R, perm)
    if k == 'sort':
        if not (R.indexable and R.iter_ok and R.has_len):
            return _must_refuse(lambda: ds.sort(fns.sort_key(), reverse=op[1]), R)
        ks = [leaf(v) for v in R.vals]
        for i in range(len(ks)):
            for j in range(i + 1, len(ks)):
                rt.assume(ks[i] != ks[j])      # ties are C18's subject (the statement does not order them)
        pos = _sorted_positions(ks, op[1])
        return ds.sort(fns.sort_key(), reverse=op[1]), ref_select(R, pos)
    if k == 'sort_nokey':
        if not (R.has_keys and R.indexable and R.has_len):
            return _must_refuse(lambda: ds.sort(reverse=op[1]), R)
        pos = _sorted_positions(list(R.keys), op[1])
        return ds.sort(reverse=op[1]), ref_select(R, pos)
    if k in ('split', 'shard'):
        kk, i = op[1], op[2]
        n = len(R.vals)
        if not (R.has_len and R.indexable) or kk > n or kk < 1:
            fn = (lambda: ds.split(kk)[i]) if k == 'split' else (lambda: ds.shard(kk, i))
            return _must_refuse(fn, R)
        sizes = ref_array_split_sizes(n, kk)
        start = sum(sizes[:i])
        pos = list(range(start, start + sizes[i]))
        out = ds.split(kk)[i] if k == 'split' else ds.shard(kk, i)
        return out, ref_select(R, pos)
    if k == 'cache':
        if not R.indexable:
            return _must_refuse(lambda: ds.cache(), R)
        if R.keys is not None and not keys_unique(R.keys):
            # CacheDataset iterates keys via keys(): with duplicate keys items() refuses (uniqueness AssertionError)
            return ds.cache(), R.clone(has_items=False)
        return ds.cache(), R
    if k == 'ecache':
        if not R.iter_ok:
            return _must_refuse(lambda: ds.cache(lazy=False), R)
        if R.keys is not None and not R.has_items and R.indexable:
            # duplicate keys behind a slice: items() refuses with the uniqueness AssertionError, and the
            # documentation does not say whether eager caching must cope -> a loud refusal is accepted
            try:
                out = ds.cache(lazy=False)
            except AssertionError:
                raise Refusal()
        else:
            out = ds.cache(lazy=False)
        if R.has_items and keys_unique(R.keys):
            return out, Ref(list(R.vals), list(R.keys))
        if R.keys is not None and keys_unique(R.keys):
            # the input need not offer items() (e.g. a multi-worker prefetch refuses it) and the snapshot is then key-less; if it does offer
            # them, the snapshot may expose keys - which then have to be these (optional capability: never demanded, checked when present)
            return out, Ref(list(R.vals), list(R.keys), has_keys=False, has_items=False)
        return out, Ref(list(R.vals), None)
    if k == 'catch':
        out = ds.catch()
        ok = R.iter_ok and R.has_len and R.indexable
        return out, Ref(R.vals if ok else [], R.keys if ok else None, has_len=False, indexable=False, has_keys=False,
                        has_items=R.has_keys and ok, iter_ok=ok)
    if k == 'copy':
        return ds.copy(), R
    if k == 'fcopy':
        return ds.copy(freeze=True), R
    if k == 'pf1':
        out = ds.prefetch(1, op[1])
        return out, Ref(R.vals, R.keys, has_len=R.has_len, indexable=False, has_keys=False, has_items=R.has_items, iter_ok=R.iter_ok)
    if k == 'pfw':
        backend = op[3] if len(op) > 3 else 't'
        if not R.has_len:
            return _must_refuse(lambda: ds.prefetch(op[1], op[2], backend=backend), R)
        out = ds.prefetch(op[1], op[2], backend=backend)
        ok = R.iter_ok and R.indexable
        return out, Ref(R.vals if ok else [], R.keys if ok else None, has_len=True, indexable=False, has_keys=False,
                        has_items=False, iter_ok=ok)
    raise ValueError(op)


def _sorted_positions(ks, reverse):
    pos = list(range(len(ks)))
    # insertion sort by comparisons (elementary); strict keys => order unique
    out = []
    for p in pos:
        j = 0
        while j < len(out) and ((ks[out[j]] < ks[p]) if not reverse else (ks[out[j]] > ks[p])):
            j += 1
        out.insert(j, p)
    return out


def rng_peek_permutation(rng, m):
    """the permutation the next rng.shuffle will apply (without consuming it)"""
    saved = list(rng.sel)
    perm = rng.permutation_of(m)
    rng.sel = saved
    return perm


def ref_concat(parts):
    vals, keys = [], []
    anykeys = all(p.keys is not None for p in parts)
    for p in parts:
        vals += list(p.vals)
        if anykeys:
            keys += list(p.keys)
    keys = keys if anykeys else None
    all_keys = all(p.has_keys for p in parts)
    return Ref(vals, keys,
               has_len=all(p.has_len for p in parts), indexable=all(p.indexable for p in parts),
               has_keys=all_keys and keys_unique(keys), has_items=all(p.has_items for p in parts),
               iter_ok=all(p.iter_ok for p in parts))


class _Refused(Exception):
    pass


def _must_refuse(fn, R):
    """the reference says the composition is unsupported: the real code must refuse loudly, at construction
    or at first use.  Returns a doomed (ds, ref) if construction went through."""
    try:
        out = fn()
    except REFUSALS:
        raise Refusal()
    if not isinstance(out, core.Dataset):
        # e.g. split() of a non-indexable... returned something else: treat as doomed iteration
        raise Refusal()
    return out, Ref([], None, has_len=False, indexable=False, has_keys=False, has_items=False, iter_ok=False)


def build(backing, n, ops, xs, ys, qs, rsel, log=None, wrap=None):
    """-> Built, or raises Refusal when the real code refuses at construction where the reference expects it.
    A refusal the reference does not expect propagates as the original exception (harness failure)."""
    fns = UserFns(log)
    rng = rt.Rng(sel=rsel)
    pool = Pool(qs)
    ds, ref = make_source(backing, n, xs, wrap=wrap)
    for op in ops:
        if not ref.iter_ok:
            # the pipeline is already doomed (iteration must be refused): the rest of the program is not applied;
            # the shorter program is a condition of its own
            break
        ds, ref = apply_op(ds, ref, op, pool, ys, fns, rng)
    return Built(ds, ref, fns, rng)


# ----------------------------------------------------------------------------- program enumeration
DUPLICATING = ('cat_self', 'isp_self')


def valid_program(n, ops, max_shuffle=3, max_sort=4):
    if budget(ops) > NPOOL:
        return False
    used = 0
    for j, op in enumerate(ops):
        if op[0] == 'sort':
            # duplicated examples tie (the statement leaves tie order open: C18); m elements cost m! paths
            if any(o[0] in DUPLICATING or (o[0] == 'tile' and o[1] > 1) for o in ops[:j]) and n > 0:
                return False
            if max_len(n, ops[:j]) > max_sort:
                return False
        if op[0] == 'shuffle':
            m = max_len(n, ops[:j])
            if m > max_shuffle:       # a permutation of m elements costs m! paths
                return False
            used += m
    return used <= NR


def programs(n, depth, alphabet, max_shuffle=3):
    for ops in itertools.product(alphabet, repeat=depth):
        if valid_program(n, ops, max_shuffle):
            yield tuple(ops)


DEPTH1_ONLY = ('cat0', 'isp0')        # degenerate forms that return the dataset itself: checked alone, not in pairs


def class_pairs(alphabet):
    """one representative pair per ordered pair of op classes"""
    seen = {}
    for a in alphabet:
        if a[0] in DEPTH1_ONLY:
            continue
        for b in alphabet:
            if b[0] in DEPTH1_ONLY:
                continue
            key = (a[0], b[0])
            if key not in seen:
                seen[key] = (a, b)
    return list(seen.values())
