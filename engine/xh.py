"""E1 driver: CrossHair (symbolic execution of the real Python code, z3 per branch).

A *family* is one harness body `body(*selectors, *symbolic_params) -> bool` over the real
lazy_dataset code.  A *condition* is that body with every structural selector fixed; it is
generated as a tiny function with a PEP316 contract (`post: _`) into a scratch module, and
CrossHair explores its path tree until it is exhausted (CONFIRMED), refuted (counterexample)
or out of budget (UNKNOWN).  Only CONFIRMED counts as discharged.

Workers are long-lived `spawn` processes; the parent enforces a wall-clock deadline per
condition and restarts a worker that exceeds it (a mutant may loop forever).
"""
import ast
import collections
import importlib
import json
import multiprocessing as mp
import os
import subprocess
import sys
import time
import traceback

VERIF = os.path.dirname(os.path.dirname(os.path.abspath(__file__)))


class Family:
    def __init__(self, name, body, selectors, params, conditions, pre=None, timeout=60.0, path_timeout=30.0,
                 desc='', nontrivial=None, pinned=None):
        """
        body:       module-level function; called as body(*selector_values, *param_values)
        selectors:  names of the structural (concrete) leading arguments
        params:     list of (name, 'int' | 'bool'): the symbolic arguments
        conditions: callable(tier, seed) -> iterable of selector tuples
        pre:        optional callable(selector_tuple) -> list of precondition strings over param names
        """
        self.name, self.body, self.selectors, self.params = name, body, list(selectors), list(params)
        self.conditions, self.pre, self.timeout, self.path_timeout, self.desc = conditions, pre, timeout, path_timeout, desc
        self.nontrivial = nontrivial
        self.pinned = pinned      # optional callable(selector_tuple) -> list of concrete argument vectors for the unshimmed validation run


COND_TEMPLATE = '''\
import {module} as _h
import engine.rt as _rt
def cond({sig}) -> bool:
    """
{pre}    post: _
    """
    _rt.begin_path()
    return _h.{body}({call})
'''


def render_condition(module, fam, sel):
    sig = ', '.join(f'{n}: {t}' for n, t in fam.params)
    pres = fam.pre(sel) if fam.pre else []
    pre = ''.join(f'    pre: {p}\n' for p in pres)
    call = ', '.join([repr(v) for v in sel] + [n for n, _ in fam.params])
    return COND_TEMPLATE.format(module=module, sig=sig, pre=pre, body=fam.body.__name__, call=call)


# ----------------------------------------------------------------------------- worker
def _worker_main(conn, workdir, repo):
    try:
        os.environ['VERIF_SYMBOLIC'] = '1'
        os.environ['VERIF_REPO'] = repo
        os.environ.setdefault('OMP_NUM_THREADS', '1')
        os.environ.setdefault('MKL_NUM_THREADS', '1')
        for p in (workdir, VERIF, repo):
            if p not in sys.path:
                sys.path.insert(0, p)
        import z3
        from crosshair.tracers import NoTracing
        cnt = {'n': 0, 't': 0.0}
        orig = z3.Solver.check

        def chk(self, *a):
            with NoTracing():
                t0 = time.perf_counter()
                r = orig(self, *a)
                cnt['t'] += time.perf_counter() - t0
                cnt['n'] += 1
            return r
        z3.Solver.check = chk
        from crosshair.core_and_libs import analyze_function, run_checkables
        from crosshair.options import AnalysisOptionSet, AnalysisKind
        import engine.rt as rt
        conn.send(('ready', os.getpid()))
    except BaseException as e:   # noqa
        conn.send(('fatal', traceback.format_exc()))
        return
    while True:
        job = conn.recv()
        if job is None:
            return
        try:
            cnt['n'], cnt['t'] = 0, 0.0
            r0 = rt.reached_count()
            e0 = rt.exhausted_count()
            m = importlib.import_module(job['modname'])
            stats = collections.Counter()
            opts = AnalysisOptionSet(per_condition_timeout=job['timeout'], per_path_timeout=job['path_timeout'], report_all=True,
                                     max_uninteresting_iterations=0, stats=stats, analysis_kind=[AnalysisKind.PEP316])
            t0 = time.time()
            c0 = time.process_time()
            msgs = run_checkables(analyze_function(m.cond, opts))
            out = dict(idx=job['idx'], msgs=[(x.state.name, x.message) for x in msgs], paths=stats['num_paths'],
                       wall=round(time.time() - t0, 3), cpu=round(time.process_time() - c0, 3), z3n=cnt['n'], z3t=round(cnt['t'], 3),
                       reached=rt.reached_count() - r0, exhausted=rt.exhausted_count() - e0)
            sys.modules.pop(job['modname'], None)
            conn.send(('done', out))
        except BaseException as e:   # noqa
            conn.send(('done', dict(idx=job['idx'], msgs=[('CRASH', traceback.format_exc()[-1500:])], paths=0, wall=0, cpu=0,
                                    z3n=0, z3t=0.0, reached=0)))


class _Slot:
    def __init__(self, ctx, workdir, repo):
        self.ctx, self.workdir, self.repo = ctx, workdir, repo
        self.job = None
        self.start()

    def start(self):
        self.parent, child = self.ctx.Pipe()
        self.proc = self.ctx.Process(target=_worker_main, args=(child, self.workdir, self.repo), daemon=True)
        self.proc.start()
        self.ready = False
        self.deadline = None

    def kill(self):
        try:
            self.proc.kill()
            self.proc.join(5)
        except Exception:
            pass


def run_conditions(jobs, workdir, repo, nproc=16, log=None, budget=None):
    """jobs: list of dict(idx, modname, timeout, path_timeout).  Returns {idx: result}
    budget: wall-clock seconds after which no further condition is started (the rest is reported SKIPPED = not decided)"""
    ctx = mp.get_context('spawn')
    nproc = max(1, min(nproc, len(jobs)))
    slots = [_Slot(ctx, workdir, repo) for _ in range(nproc)]
    pending = collections.deque(jobs)
    results = {}
    total = len(jobs)
    t_start = time.time()
    last_log = t_start
    try:
        while len(results) < total:
            progressed = False
            for s in slots:
                # collect
                while s.parent.poll():
                    try:
                        kind, payload = s.parent.recv()
                    except (EOFError, OSError):
                        kind, payload = 'dead', None
                    progressed = True
                    if kind == 'ready':
                        s.ready = True
                    elif kind == 'fatal':
                        raise RuntimeError('worker failed to start:\n' + payload)
                    elif kind == 'done':
                        results[payload['idx']] = payload
                        s.job = None
                    elif kind == 'dead':
                        if s.job is not None:
                            results[s.job['idx']] = dict(idx=s.job['idx'], msgs=[('CRASH', 'worker died')], paths=0, wall=0, cpu=0,
                                                         z3n=0, z3t=0.0, reached=0)
                            s.job = None
                        s.kill()
                        s.start()
                        break
                if s.job is not None and not s.proc.is_alive():
                    results[s.job['idx']] = dict(idx=s.job['idx'], msgs=[('CRASH', 'worker died')], paths=0, wall=0, cpu=0, z3n=0,
                                                 z3t=0.0, reached=0)
                    s.job = None
                    s.kill()
                    s.start()
                    progressed = True
                if s.job is not None and time.time() > s.deadline:
                    results[s.job['idx']] = dict(idx=s.job['idx'], msgs=[('HUNG', f'no answer within wall deadline')], paths=0,
                                                 wall=round(time.time() - s.t0, 1), cpu=0, z3n=0, z3t=0.0, reached=0)
                    s.job = None
                    s.kill()
                    s.start()
                    progressed = True
                if s.ready and s.job is None and pending:
                    job = pending.popleft()
                    s.job = job
                    s.t0 = time.time()
                    s.deadline = s.t0 + job['timeout'] * 2.5 + 30
                    s.parent.send(job)
                    progressed = True
            if budget and pending and time.time() - t_start > budget:
                if log:
                    log(f'  ... wall budget of {budget:.0f}s used up: {len(pending)} conditions not started')
                for job in pending:
                    results[job['idx']] = dict(idx=job['idx'], msgs=[('SKIPPED', 'wall budget')], paths=0, wall=0, cpu=0, z3n=0,
                                               z3t=0.0, reached=0)
                pending.clear()
            if not progressed:
                time.sleep(0.01)
            if log and time.time() - last_log > 30:
                last_log = time.time()
                log(f'  ... {len(results)}/{total} conditions, {time.time() - t_start:.0f}s')
    finally:
        for s in slots:
            try:
                if s.ready and s.job is None:
                    s.parent.send(None)
            except Exception:
                pass
        for s in slots:
            s.proc.join(0.5)
            if s.proc.is_alive():
                s.kill()
    return results


# ----------------------------------------------------------------------------- counterexample parsing / replay
def parse_call_args(message, params):
    """'false when calling cond(2, x1=-1, ...)' -> list of python values in param order"""
    i = message.find('cond(')
    if i < 0:
        return None
    depth = 0
    j = i + 4
    for j in range(i + 4, len(message)):
        if message[j] == '(':
            depth += 1
        elif message[j] == ')':
            depth -= 1
            if depth == 0:
                break
    src = message[i:j + 1]
    try:
        call = ast.parse(src, mode='eval').body
        vals = [ast.literal_eval(a) for a in call.args]
        kw = {k.arg: ast.literal_eval(k.value) for k in call.keywords}
    except Exception:
        return None
    out = []
    for k, (n, t) in enumerate(params):
        if k < len(vals):
            out.append(vals[k])
        elif n in kw:
            out.append(kw[n])
        else:
            return None
    return out


def replay_concrete(module, family, sel, args, repo, timeout=120, env_extra=None):
    """run body(*sel, *args) in a fresh interpreter, shims off (real numpy / pickle / threads).
    returns ('holds'|'fails'|'rejected'|'error', detail)"""
    env = dict(os.environ)
    env.update(VERIF_SYMBOLIC='0', VERIF_REPO=repo, OMP_NUM_THREADS='1', MKL_NUM_THREADS='1',
               PYTHONPATH=os.pathsep.join([repo, VERIF]))
    env.update(env_extra or {})
    payload = json.dumps(dict(module=module, family=family, sel=sel, args=args))
    try:
        p = subprocess.run([sys.executable, '-m', 'engine.replay', '--json', payload], cwd=VERIF, env=env, capture_output=True,
                           text=True, timeout=timeout)
    except subprocess.TimeoutExpired:
        return 'fails', f'replay did not terminate within {timeout}s'
    for line in p.stdout.splitlines():
        if line.startswith('REPLAY-RESULT '):
            d = json.loads(line[len('REPLAY-RESULT '):])
            return d['verdict'], d.get('detail', '')
    return 'error', (p.stdout + p.stderr)[-1500:]
