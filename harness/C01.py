"""C01 - iterating a pipeline equals the eager reference semantics, repeatably (E1, CrossHair, universe L2)."""
import itertools
import random

from engine import rt
from engine import universe as U
from engine.xh import Family

rt.quiet_logging()
rt.install_shims()

META = dict(
    engine='E1 CrossHair 0.0.110 (symbolic execution of the real code, z3 per branch), shared pipeline universe',
    functions=['lazy_dataset.core: factory methods of Dataset (map, filter, __getitem__, concatenate, intersperse, zip, key_zip, batch, unbatch, '
               'items, tile, cycle, shuffle, sort, split, shard, cache, catch, copy, prefetch) and __iter__/__getitem__/__len__/keys of '
               'ListDataset, DictDataset, MapDataset, ParMapDataset, FilterDataset, SliceDataset, ConcatenateDataset, IntersperseDataset, '
               'ZipDataset, KeyZipDataset, BatchDataset, UnbatchDataset, ItemsDataset, CycleDataset, CacheDataset, CatchExceptionDataset, '
               'PrefetchDataset; from_dataset/from_list/from_dict'],
    stubs=['numpy -> engine/shims/np_shim.py', 'pickle -> engine/shims/pickle_shim.py (structural deep copy)',
           'parallel_utils.lazy_parallel_map / single_thread_prefetch -> serial contract (engine/shims/pool_shim.py); the real functions are C04-C07 (E2)',
           'rng -> engine.rt.Rng: solver-chosen permutation per shuffle call'],
    assumptions=['family opaque: concrete selection parameters, one or two solver-chosen positions hold a solver-chosen non-numeric example', 'example values, map offsets, filter thresholds, slice bounds, index-list entries are unbounded symbolic ints',
                 'pipelines containing sort are compared under "sort keys pairwise distinct" (ties: C18)',
                 'cycle is observed through islice on non-empty datasets',
                 'a composition the reference marks unsupported must be refused loudly (at construction or first use)'],
    bounds=dict(quick='source length n in 0..3, list- and dict-backed; every op of the alphabet at depth 1; depth 2: one representative per ordered pair of op classes '
                      '(list-backed n=2, dict-backed n=3); depth 3 complete over an 8-op core alphabet (n=3); shuffle over <= 3 and sort over <= 4 elements',
                thorough='n in 0..3 depth 1 and depth 2 complete over the full alphabet; n = 4 depth 1; depth 3 over a seeded sample of shapes'),
    outside=['depth > 3', 'n > 4', 'symbolic strings / float / numpy-array examples (non-numeric examples: None, 0, False, \'\', (), a key-like string at one or two positions, value-agnostic combinators, depth <= 2)', 'real worker pools (C04)'],
)

PARAMS = U.POOL_PARAMS
SELECTING = ('sl', 'idx', 'nparr')
CORE3 = [('map',), ('filt',), ('sl', 'm1'), ('batch', 2, False), ('cache',), ('catch',), ('cat_self',), ('pfw', 2, 2)]


def body_iter(backing, n, ops, *args):
    xs, ys, qs, rs, _ = U.split_params(args)
    try:
        b = U.build(backing, n, ops, xs, ys, qs, rs)
    except U.Refusal:
        rt.reached()
        return True
    ds, ref = b.ds, b.ref
    if not ref.iter_ok:
        # unsupported composition: refused loudly at first use; an empty result (no example was ever
        # evaluated, e.g. an empty selection) is the only other acceptable outcome
        try:
            got = list(ds)
        except U.REFUSALS:
            rt.reached()
            return True
        rt.reached()
        return got == []
    l1 = list(ds)
    l2 = list(ds)
    rt.reached()
    return l1 == ref.vals and l2 == ref.vals


def body_cycle(backing, n, ops, *args):
    xs, ys, qs, rs, _ = U.split_params(args)
    try:
        b = U.build(backing, n, ops, xs, ys, qs, rs)
    except U.Refusal:
        rt.reached()
        return True
    ds, ref = b.ds, b.ref
    if not ref.iter_ok:
        rt.reached()
        return True          # body_iter decides refusals
    m = len(ref.vals)
    if m == 0:
        rt.reached()
        return True          # cycle() of an empty dataset never yields: not observable in finite time
    k = 2 * m + 1
    got = list(itertools.islice(ds.cycle(), k))
    got2 = list(itertools.islice(ds.cycle(), k))
    want = (list(ref.vals) * 3)[:k]
    rt.reached()
    return got == want and got2 == want


# ---- examples that are not numbers: None, falsy values, empty containers ------------------------------------------------------------
NASTY = (None, 0, False, '', (), 'k0')
OPAQUE_OPS = ('sl', 'idx', 'nparr', 'keys', 'cat_self', 'cat_b', 'isp_b', 'isp_self', 'isp3', 'zip_b', 'zip_self', 'zip1', 'batch', 'items', 'tile', 'shuffle',
              'sort_nokey', 'split', 'shard', 'cache', 'ecache', 'catch', 'copy', 'fcopy', 'pf1', 'pfw', 'cat0', 'isp0')
OPAQUE_CORE = [('sl', 'm1'), ('idx', 2), ('cat_self',), ('isp_b',), ('zip_b',), ('batch', 2, False), ('batch', 2, True), ('items',), ('tile', 2), ('shuffle',),
               ('cache',), ('ecache',), ('catch',), ('fcopy',), ('pf1', 2), ('pfw', 2, 2), ('split', 2, 1)]


def _same(a, b):
    """equality that does not confuse 0, False and ''-like values: same type, same structure"""
    if type(a) is not type(b):
        return False
    if isinstance(a, (list, tuple)):
        return len(a) == len(b) and all(_same(x, y) for x, y in zip(a, b))
    return a == b


def body_opaque(backing, n, ops, j1, j2, k):
    """the combinators that do not look at the examples (selection, combination, batching, caching, prefetching, copying) treat them as
    opaque: an example that is None, 0, False, '', () or a string equal to a key - at one or two solver-chosen positions - is passed
    through like any other (a pipeline must never use an example value as an in-band marker)"""
    rt.assume(0 <= j1 < max(n, 1))
    rt.assume(0 <= j2 < max(n, 1))
    rt.assume(0 <= k < len(NASTY))
    xs = [100 + i for i in range(U.NX)]
    for i in range(n):
        if i == j1 or i == j2:
            for kk in range(len(NASTY)):
                if k == kk:
                    xs[i] = NASTY[kk]
    ys = [None, 7, '']
    qs = [1, 5, 0, 2, 1, 0, 3, 1]
    try:
        b = U.build(backing, n, ops, xs, ys, qs, [0] * U.NR)
    except U.Refusal:
        rt.reached()
        return True
    ds, ref = b.ds, b.ref
    if not ref.iter_ok:
        try:
            got = list(ds)
        except U.REFUSALS:
            rt.reached()
            return True
        rt.reached()
        return got == []
    l1 = list(ds)
    l2 = list(ds)
    rt.reached()
    if not (_same(l1, list(ref.vals)) and _same(l2, list(ref.vals))):
        return False
    if ref.has_len and len(ds) != len(ref.vals):
        return False
    if ref.indexable and ref.has_len and not any(o[0] == 'items' for o in ops):      # (integer indexing of items() over duplicate keys: known finding of C02)
        for i in range(len(ref.vals)):
            if not _same(ds[i], ref.vals[i]):
                return False
    if len(ops) == 1 and ops[0][0] == 'batch':
        # batch(b).unbatch() is the identity (C16) also for such examples
        if not ops[0][2] and not _same(list(ds.unbatch()), [v for bt in ref.vals for v in bt]):
            return False
    return True


def opaque_conditions(tier, seed):
    out = []
    for backing in ('list', 'dict'):
        for n in ((2, 3) if tier == 'quick' else (1, 2, 3, 4)):
            for op in U.ALPHABET:
                if op[0] in OPAQUE_OPS and U.valid_program(n, (op,), 3):
                    out.append((backing, n, (op,)))
        if tier == 'quick' and backing == 'list':
            continue            # quick: depth 2 on the dict backing only (it also exercises the key paths)
        for a in (OPAQUE_CORE if tier == 'quick' else [o for o in U.ALPHABET if o[0] in OPAQUE_OPS]):
            for bb in OPAQUE_CORE:
                for n in ((3,) if tier == 'quick' else (2, 3)):
                    if U.valid_program(n, (a, bb), 3):
                        out.append((backing, n, (a, bb)))
    return out


def conditions(tier, seed):
    out = []
    seen = set()

    def add(backing, n, ops):
        key = (backing, n, ops)
        if key not in seen and U.valid_program(n, ops, 3):
            seen.add(key)
            out.append(key)
    for backing in ('list', 'dict'):
        for n in range(0, 4):
            for op in U.ALPHABET:
                add(backing, n, (op,))
    if tier == 'quick':
        for backing, n in (('list', 2), ('dict', 3)):
            for a, b in U.class_pairs(U.ALPHABET):
                n2 = n
                if a[0] in SELECTING and b[0] in SELECTING:
                    n2 = 2          # two symbolic selections multiply their regions: keep the quick tier at n = 2
                    if U.budget((a, b)) >= 4:
                        continue    # two 2-entry selections: thorough tier only (does not exhaust in the quick budget)
                add(backing, n2, (a, b))
        # depth 3 over a core alphabet of stages that reach their input point-wise or by iteration in different ways
        for ops in itertools.product(CORE3, repeat=3):
            add('dict', 3, tuple(ops))
    else:
        for backing in ('list', 'dict'):
            for op in U.ALPHABET:
                add(backing, 4, (op,))
            for n in range(0, 4):
                for a in U.ALPHABET:
                    for b in U.ALPHABET:
                        add(backing, n, (a, b))
        rnd = random.Random(seed)
        for _ in range(600):
            ops = tuple(rnd.choice(U.ALPHABET) for _ in range(3))
            add(rnd.choice(('list', 'dict')), rnd.choice((1, 2, 3)), ops)
    return out


def cycle_conditions(tier, seed):
    out = []
    for backing in ('list', 'dict'):
        for n in (1, 2, 3):
            for op in U.ALPHABET:
                if U.valid_program(n, (op,), 3):
                    out.append((backing, n, (op,)))
    return out


FAMILIES = [
    Family('opaque', body_opaque, ['backing', 'n', 'ops'], [('j1', 'int'), ('j2', 'int'), ('k', 'int')], opaque_conditions, timeout=dict(quick=150, thorough=300),
           desc='value-agnostic combinators pass None / falsy / empty / key-like examples through unchanged (iteration twice, len, indexing, batch-unbatch)'),
    Family('iter', body_iter, ['backing', 'n', 'ops'], PARAMS, conditions, timeout=dict(quick=150, thorough=300),
           desc='list(ds) twice equals the eager reference (or the composition is refused where the reference says so)'),
    Family('cycle', body_cycle, ['backing', 'n', 'ops'], PARAMS, cycle_conditions, timeout=dict(quick=150, thorough=300),
           desc='islice(ds.cycle(), 2m+1) equals the repeated reference'),
]
