"""C02 - length and integer indexing agree with iteration (E1: L1 per-stage contracts with unbounded lengths, L2 universe; E3 float lemma)."""
from lazy_dataset.core import (ConcatenateDataset, BatchDataset, ZipDataset, MapDataset, CacheDataset, ItemsDataset, IntersperseDataset,
                               SliceDataset, ListDataset, DictDataset)

from engine import rt
from engine import universe as U
from engine.absds import AbsDS
from engine.xh import Family

rt.quiet_logging()
rt.install_shims()

META = dict(
    engine='E1 CrossHair (L1: per-stage contracts on abstract datasets of symbolic unbounded length; L2: whole pipelines of the shared universe) + E3 cvc5 QF_BVFP lemma for BatchDataset.__len__',
    functions=['lazy_dataset.core.ConcatenateDataset.__getitem__/__len__', 'BatchDataset.__getitem__/__len__', 'ZipDataset.__getitem__', 'MapDataset.__getitem__',
               'CacheDataset.__getitem__', 'IntersperseDataset.__init__/__getitem__', 'SliceDataset.__init__/__getitem__/__len__', 'Dataset.__getitem__ dispatch',
               'ListDataset/DictDataset.__getitem__', '__len__/indexable of every stage in the universe (incl. PrefetchDataset, ParMapDataset)'],
    stubs=['numpy -> np_shim', 'pickle -> pickle_shim', 'lazy_parallel_map/single_thread_prefetch -> serial contract', 'rng -> engine.rt.Rng',
           'L1 batch family: CrossHair float model pinned to real arithmetic (the IEEE formula of BatchDataset.__len__ is the E3 lemma)'],
    assumptions=['L1: the inputs of a stage satisfy the dataset contract (len >= 0, ds[j] defined exactly on [-len, len), IndexError elsewhere)',
                 'L2: the probe index i is any integer in [-LB-2, LB+2) where LB is the structural upper bound of the pipeline length',
                 'cycle() is excluded (finite datasets)'],
    bounds=dict(quick='L1: concatenate of 2 and 3 parts, map: lengths and index unbounded; batch bs 1..3: non-negative index unbounded, len/negative index at length <= 12; zip length <= 12; cache length <= 6; slice/intersperse lengths <= 3/4; '
                      'L2: depth-1 programs n<=3 and op-class pairs (n=2), one symbolic index; numpy integer index over [-n-2, n+2) at depth 1; '
                      'E3: L < 2^16, b in 1..4',
                thorough='L1 as quick with batch bs 1..4; L2: all depth-2 pairs (dict-backed n in {1,3}, list-backed n=2); E3: L < 2^31, b in 1..8'),
    outside=['batch sizes > 4 at L1', 'L >= 2^31 for the float formula', 'depth > 2 at L2'],
)


KF_ITEMS = 'KF-C02-items-dupkeys-int-index'


# ----------------------------------------------------------------------------- L1
def _check_index_contract(ds, n, i, spec):
    """len(ds) == n; ds[i] == spec(j) for -n <= i < n (j = i mod n); IndexError for every other integer"""
    if len(ds) != n:
        return False
    try:
        got = ds[i]
    except IndexError:
        return not (-n <= i < n)
    if not (-n <= i < n):
        return False
    j = i if i >= 0 else i + n
    return got == spec(j)


def body_concat2(l0, l1, i):
    rt.assume(l0 >= 0)
    rt.assume(l1 >= 0)
    ds = ConcatenateDataset(AbsDS(0, l0), AbsDS(1, l1))
    rt.reached()
    return _check_index_contract(ds, l0 + l1, i, lambda j: (0, j) if j < l0 else (1, j - l0))


def body_concat3(l0, l1, l2, i):
    rt.assume(l0 >= 0)
    rt.assume(l1 >= 0)
    rt.assume(l2 >= 0)
    ds = ConcatenateDataset(AbsDS(0, l0), AbsDS(1, l1), AbsDS(2, l2))
    rt.reached()
    return _check_index_contract(ds, l0 + l1 + l2, i,
                                 lambda j: (0, j) if j < l0 else ((1, j - l0) if j < l0 + l1 else (2, j - l0 - l1)))


def body_zip(l0, i):
    rt.assume(l0 >= 0)
    rt.assume(l0 <= 12)          # ZipDataset.__init__ hashes the lengths (len(set(lengths)) == 1): a symbolic length is realised there
    ds = ZipDataset(AbsDS(0, l0), AbsDS(1, l0))
    rt.reached()
    return _check_index_contract(ds, l0, i, lambda j: ((0, j), (1, j)))


def body_map_cache(kind, l0, i, i2):
    rt.assume(l0 >= 0)
    if kind == 'cache':
        # the cache is a dict keyed by the index: hashing realises a symbolic index, so the probes are bounded here
        rt.assume(l0 <= 6)
        rt.assume(-9 <= i <= 8)
        rt.assume(-9 <= i2 <= 8)
    base = AbsDS(0, l0)
    if kind == 'map':
        ds = MapDataset(lambda ex: (ex, 'm'), base)
        spec = lambda j: ((0, j), 'm')
    else:
        ds = CacheDataset(base)
        spec = lambda j: (0, j)
    ok = _check_index_contract(ds, l0, i, spec)
    ok2 = _check_index_contract(ds, l0, i2, spec)      # second access (cache hit path)
    rt.reached()
    return ok and ok2


def body_batch_nonneg(bs, drop, l0, i):
    """non-negative index, unbounded length and index: __getitem__ does not go through the float __len__"""
    rt.assume(0 <= l0)
    rt.assume(0 <= i)
    ds = BatchDataset(AbsDS(0, l0), bs, drop)
    nb = l0 // bs if drop else (l0 + bs - 1) // bs
    try:
        got = ds[i]
    except IndexError:
        rt.reached()
        return not (i < nb)
    rt.reached()
    if not (i < nb):
        return False
    want = []
    for d in range(bs):
        if i * bs + d < l0:
            want.append((0, i * bs + d))
    return got == want


def body_batch(bs, drop, l0, i):
    rt.pin_real_floats()
    # 0 <= l0 <= 12 is a `pre:` of the condition (Family.pre): len() and negative indices go through
    # int(np.ceil(len / bs)) and int() of a symbolic float realises it
    ds = BatchDataset(AbsDS(0, l0), bs, drop)
    nb = l0 // bs if drop else (l0 + bs - 1) // bs

    def spec(j):
        out = []
        for d in range(bs):
            if j * bs + d < l0:
                out.append((0, j * bs + d))
        return out
    rt.reached()
    return _check_index_contract(ds, nb, i, spec)


def body_intersperse(l0, l1, i):
    """order table is built by a loop over the lengths: concrete small lengths, symbolic index"""
    ds = IntersperseDataset(AbsDS(0, l0), AbsDS(1, l1))
    order = U.intersperse_order([l0, l1])
    rt.reached()
    return _check_index_contract(ds, l0 + l1, i, lambda j: order[_realise(j, l0 + l1)])


def body_intersperse3(l0, l1, l2, i):
    ds = IntersperseDataset(AbsDS(0, l0), AbsDS(1, l1), AbsDS(2, l2))
    order = U.intersperse_order([l0, l1, l2])
    rt.reached()
    return _check_index_contract(ds, l0 + l1 + l2, i, lambda j: order[_realise(j, l0 + l1 + l2)])


def _realise(j, n):
    k = 0
    while k < n - 1 and k != j:
        k += 1
    return k


def body_slice_idx(m, l0, j0, j1, j2, i):
    """SliceDataset over an arbitrary valid index vector of length m"""
    rt.assume(0 <= l0)
    rt.assume(l0 <= 3)
    js = rt.mk(m, [j0, j1, j2])
    for j in js:
        rt.assume(-l0 <= j)
        rt.assume(j < l0)
    ds = AbsDS(0, l0)[list(js)]
    rt.reached()
    return _check_index_contract(ds, m, i, lambda k: (0, js[_realise(k, m)] if js[_realise(k, m)] >= 0 else js[_realise(k, m)] + l0))


def body_slice_ab(form, l0, a, b, i):
    rt.assume(0 <= l0)
    rt.assume(l0 <= 4)
    sa, sb, step = U.SLICE_FORMS[form]
    sl = slice(a if sa else None, b if sb else None, step)
    ds = AbsDS(0, l0)[sl]
    pos = U.ref_slice_positions(l0, sl.start, sl.stop, step)
    rt.reached()
    return _check_index_contract(ds, len(pos), i, lambda k: (0, pos[_realise(k, len(pos))]))


# ----------------------------------------------------------------------------- L2
def body_index(backing, n, ops, *args):
    xs, ys, qs, rs, rest = U.split_params(args)
    i = rest[0]
    LB = U.max_len(n, ops)
    rt.assume(-LB - 2 <= i)
    rt.assume(i < LB + 2)
    try:
        b = U.build(backing, n, ops, xs, ys, qs, rs)
    except U.Refusal:
        rt.reached()
        return True
    ds, ref = b.ds, b.ref
    if not ref.iter_ok:
        rt.reached()
        return True
    if rt.known(KF_ITEMS) and ref.keys is not None and not U.keys_unique(ref.keys) and any(o[0] == 'items' for o in ops):
        rt.reached()
        return True          # known finding: integer indexing of items() over duplicate keys
    it = list(ds)
    rt.reached()
    try:
        L = len(ds)
    except TypeError:
        L = None
    if ref.has_len and L is None:
        return False
    if L is not None and L != len(it):
        return False
    if not ds.indexable:
        return not ref.indexable or True
    if L is None:
        return False
    try:
        got = ds[i]
    except IndexError:
        return not (-L <= i < L)
    if not (-L <= i < L):
        return False
    return got == it[_realise(i if i >= 0 else i + L, L)]


def body_npint(backing, n, ops, i, *args):
    """numpy integer types as index (i concrete, values symbolic)"""
    import numpy as np
    xs, ys, qs, rs, rest = U.split_params(args)
    try:
        b = U.build(backing, n, ops, xs, ys, qs, rs)
    except U.Refusal:
        rt.reached()
        return True
    ds, ref = b.ds, b.ref
    if not ref.iter_ok or not ds.indexable:
        rt.reached()
        return True
    it = list(ds)
    L = len(ds)
    rt.reached()
    for typ in (np.int64, np.int32):
        try:
            got = ds[typ(i)]
        except IndexError:
            if -L <= i < L:
                return False
            continue
        if not (-L <= i < L) or got != it[i]:
            return False
    return True


def _l2_conditions(tier, seed):
    out, seen = [], set()

    def add(backing, n, ops):
        key = (backing, n, ops)
        if key not in seen and U.valid_program(n, ops, 3):
            seen.add(key)
            out.append(key)
    for backing in ('list', 'dict'):
        for n in range(0, 4):
            for op in U.ALPHABET:
                add(backing, n, (op,))
    sel = ('sl', 'idx', 'nparr')
    if tier == 'quick':
        for a, b in U.class_pairs(U.ALPHABET):
            if a[0] in sel and b[0] in sel:
                continue
            if a[0] in ('cat_b', 'isp_b', 'cat_self', 'isp_self', 'tile', 'isp3') and b[0] in sel:
                if U.budget((b,)) < 2:
                    add('dict', 1, (a, b))  # a grown dataset under a symbolic selection: keep the quick tier small
                continue                    # (two symbolic index entries over >= 4 examples: thorough tier)
            add('dict', 2, (a, b))
    else:
        for backing in ('list', 'dict'):
            for n in ((1, 3) if backing == 'dict' else (2,)):
                for a in U.ALPHABET:
                    for b in U.ALPHABET:
                        if a[0] in sel and b[0] in sel and n > 2:
                            continue
                        add(backing, n, (a, b))
    return out


def _np_conditions(tier, seed):
    out = []
    ops1 = [('map',), ('sl', 'm1'), ('cat_self',), ('batch', 2, False), ('batch', 2, True), ('zip_self',), ('items',), ('cache',), ('tile', 2),
            ('isp_self',), ('split', 2, 1), ('copy',), ('kzip_b', 1)]
    for backing in ('list', 'dict'):
        for n in ((1, 3) if tier == 'quick' else (0, 1, 2, 3)):
            for op in ops1:
                if tier == 'quick' and backing == 'list' and op[0] in ('items', 'kzip_b', 'copy', 'split'):
                    continue
                L = U.max_len(n, (op,))
                for i in range(-L - 2, L + 2):
                    out.append((backing, n, (op,), i))
    return out


def _batch_conds(tier, seed):
    return [(bs, drop) for bs in ((1, 2, 3) if tier == 'quick' else (1, 2, 3, 4)) for drop in (False, True)]


INTS = lambda *names: [(n, 'int') for n in names]
FAMILIES = [
    Family('L1_concat2', body_concat2, [], INTS('l0', 'l1', 'i'), lambda t, s: [()], timeout=60, desc='ConcatenateDataset, 2 parts, unbounded lengths and index'),
    Family('L1_concat3', body_concat3, [], INTS('l0', 'l1', 'l2', 'i'), lambda t, s: [()], timeout=60, desc='ConcatenateDataset, 3 parts, unbounded'),
    Family('L1_zip', body_zip, [], INTS('l0', 'i'), lambda t, s: [()], timeout=60, desc='ZipDataset, unbounded'),
    Family('L1_map_cache', body_map_cache, ['kind'], INTS('l0', 'i', 'i2'), lambda t, s: [('map',), ('cache',)], timeout=60, desc='MapDataset / CacheDataset, unbounded'),
    Family('L1_batch', body_batch, ['bs', 'drop'], INTS('l0', 'i'), _batch_conds, pre=lambda sel: ['0 <= l0 <= 12'], timeout=dict(quick=240, thorough=600), desc='BatchDataset len + index contract (both signs), length <= 12'),
    Family('L1_batch_nonneg', body_batch_nonneg, ['bs', 'drop'], INTS('l0', 'i'), _batch_conds, timeout=dict(quick=240, thorough=600),
           desc='BatchDataset non-negative index, unbounded length and index'),
    Family('L1_intersperse', body_intersperse, ['l0', 'l1'], INTS('i'), lambda t, s: [(a, b) for a in range(1, 5) for b in range(1, 5)], timeout=60,
           desc='IntersperseDataset order table, lengths 1..4 x 1..4, unbounded index'),
    Family('L1_intersperse3', body_intersperse3, ['l0', 'l1', 'l2'], INTS('i'),
           lambda t, s: [(a, b, c) for a in range(1, (5 if t == 'quick' else 6)) for b in range(1, (5 if t == 'quick' else 6)) for c in range(1, 6) if a <= b or t != 'quick'], timeout=60,
           desc='IntersperseDataset over three datasets of unequal lengths, unbounded index'),
    Family('L1_slice_idx', body_slice_idx, ['m'], INTS('l0', 'j0', 'j1', 'j2', 'i'), lambda t, s: [(m,) for m in range(0, (3 if t == 'quick' else 4))], timeout=dict(quick=240, thorough=900),
           desc='SliceDataset over an arbitrary valid index vector (input length <= 3)'),
    Family('L1_slice_ab', body_slice_ab, ['form'], INTS('l0', 'a', 'b', 'i'), lambda t, s: [(f,) for f in U.SLICE_FORMS], timeout=dict(quick=240, thorough=600),
           desc='SliceDataset over slice(a, b, step), unbounded bounds and index'),
    Family('L2_index', body_index, ['backing', 'n', 'ops'], U.POOL_PARAMS + [('i', 'int')], _l2_conditions, timeout=dict(quick=300, thorough=300),
           desc='whole pipelines: len == #iterated; ds[i] == i-th iterated / IndexError for one symbolic i'),
    Family('L2_npint', body_npint, ['backing', 'n', 'ops', 'i'], U.POOL_PARAMS, _np_conditions, timeout=60, desc='numpy integer index types'),
]


def extra(tier, seed, ctx):
    """E3: the IEEE-double formula of BatchDataset.__len__ equals floor/ceiling division (cvc5, QF_BVFP)"""
    from engine import kernels
    return kernels.run(tier, nproc=ctx['nproc'], log=ctx['log'])


def custom_replay(payload):
    from engine import kernels
    return kernels.replay(payload)
