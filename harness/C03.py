"""C03 - keys, items and key lookup are aligned with iteration order (E1 CrossHair, universe L2 over dict-backed sources)."""
from engine import rt
from engine import universe as U
from engine.xh import Family

rt.quiet_logging()
rt.install_shims()

META = dict(
    engine='E1 CrossHair 0.0.110, shared pipeline universe over dict-backed sources',
    functions=['keys() / __iter__(with_key=True) / __getitem__(str) of DictDataset, MapDataset, SliceDataset, FilterDataset, ConcatenateDataset, IntersperseDataset, '
               'KeyZipDataset, ItemsDataset, CacheDataset, CatchExceptionDataset, PrefetchDataset, ParMapDataset; Dataset.items; KeyErrorCloseMatches'],
    stubs=['Dataset.__repr__ -> constant (exception messages embed repr(self))', 'numpy -> np_shim', 'pickle -> pickle_shim', 'lazy_parallel_map/single_thread_prefetch -> serial contract', 'rng -> engine.rt.Rng'],
    assumptions=['keys are the concrete strings k0..k3 / m0..m2; "raises a lookup error" is checked as "raises and never returns a value"',
                 'a stage without keys()/items() may refuse loudly; whatever it does return must be aligned with iteration'],
    bounds=dict(quick='dict-backed sources n in 0..3; every op at depth 1; op-class pairs at depth 2 (n=3; two symbolic selections n=2)',
                thorough='all depth-2 pairs n in 1..3'),
    outside=['non-string keys', 'symbolic key strings', 'depth > 2'],
)

KF_SLICE = 'KF-C03-slice-lookup-outside-selection'
ABSENT = 'zz_absent'


def body_keys(n, ops, *args):
    xs, ys, qs, rs, _ = U.split_params(args)
    try:
        b = U.build('dict', n, ops, xs, ys, qs, rs)
    except U.Refusal:
        rt.reached()
        return True
    ds, ref = b.ds, b.ref
    if not ref.iter_ok or ref.keys is None and not _maybe_keys(ds):
        rt.reached()
        return True
    it = list(ds)
    # ---- keys(): one key per example in iteration order
    try:
        ks = list(ds.keys())
    except Exception:   # noqa
        ks = None
    if ref.has_keys and ks is None:
        return False
    if ks is not None:
        if ref.keys is None or ks != list(ref.keys) or len(ks) != len(it):
            return False
    # ---- items(): (key, example) pairs with the very examples iteration yields
    try:
        items = list(ds.items())
    except Exception:   # noqa
        items = None
    if ref.has_items and items is None:
        return False
    if items is not None:
        if ref.keys is None or len(items) != len(it):
            return False
        for j in range(len(it)):
            k, v = items[j]
            if k != ref.keys[j] or v != it[j]:
                return False
    rt.reached()
    # ---- lookup
    if ref.keys is not None:
        uniq = U.keys_unique(ref.keys)
        for j, k in enumerate(ref.keys):
            try:
                v = ds[k]
            except Exception:   # noqa
                if ref.has_keys:
                    return False        # a dataset that exposes this key must return its example
                continue
            if uniq and v != it[j]:
                return False
            if not uniq and not any(v == it[jj] for jj in range(len(it)) if ref.keys[jj] == k):
                return False
        # keys of the sources that are no longer part of this dataset, and a key that never existed
        gone = [k for k in (rt.KEYS[:n] + rt.KEYS_B[:U.NY]) if k not in ref.keys] + [ABSENT]
        for k in gone:
            if k != ABSENT and rt.known(KF_SLICE) and _slice_above_source(ops):
                continue
            try:
                v = ds[k]
            except Exception:   # noqa
                continue
            return False
    return True


def _maybe_keys(ds):
    try:
        ds.keys()
        return True
    except Exception:   # noqa
        return False


def _slice_above_source(ops):
    """region of the known finding: some stage of the pipeline is a SliceDataset (slice, index list, key list, shuffle, sort,
    split/shard, eager filter), whose key lookup delegates to its input without consulting the selection"""
    return any(o[0] in ('sl', 'idx', 'nparr', 'keys', 'shuffle', 'sort', 'sort_nokey', 'split', 'shard', 'efilt') for o in ops)


def conditions(tier, seed):
    out, seen = [], set()
    sel = ('sl', 'idx', 'nparr')

    def add(n, ops):
        key = (n, ops)
        if key not in seen and U.valid_program(n, ops, 3):
            seen.add(key)
            out.append(key)
    for n in range(0, 4):
        for op in U.ALPHABET:
            add(n, (op,))
    if tier == 'quick':
        for a, b in U.class_pairs(U.ALPHABET):
            n = 3
            if a[0] in ('cat_b', 'isp_b', 'cat_self', 'isp_self', 'tile'):
                n = 2           # the dataset grows to n + 3 / 2n examples: keep the quick tier small
            if a[0] in ('shuffle', 'sort') and b[0] in sel:
                n = 2
            if a[0] in sel and b[0] in sel:
                n = 2
                if U.budget((a, b)) >= 4:
                    continue
            add(n, (a, b))
    else:
        for n in (1, 2, 3):
            for a in U.ALPHABET:
                for b in U.ALPHABET:
                    if a[0] in sel and b[0] in sel and n > 2:
                        continue
                    add(n, (a, b))
    return out


FAMILIES = [
    Family('keys', body_keys, ['n', 'ops'], U.POOL_PARAMS, conditions, timeout=dict(quick=60, thorough=300),
           desc='keys()/items() aligned with iteration; ds[key] returns the example of that key; absent or removed keys raise'),
]
