"""C03 - keys, items and key lookup are aligned with iteration order (E1 CrossHair, universe L2 over dict-backed sources)."""
from engine import rt
from engine import universe as U
from engine.xh import Family

rt.quiet_logging()
rt.install_shims()

META = dict(
    engine='E1 CrossHair 0.0.110, shared pipeline universe over dict-backed sources',
    functions=['keys() / __iter__(with_key=True) / __getitem__(str) of DictDataset, MapDataset, SliceDataset, FilterDataset, ConcatenateDataset, IntersperseDataset, '
               'KeyZipDataset, ItemsDataset, CacheDataset, CatchExceptionDataset, PrefetchDataset, ParMapDataset; Dataset.items; KeyErrorCloseMatches'],
    stubs=['Dataset.__repr__ -> constant (exception messages embed repr(self))', 'numpy -> np_shim', 'pickle -> pickle_shim', 'lazy_parallel_map/single_thread_prefetch -> serial contract', 'rng -> engine.rt.Rng'],
    assumptions=['keys are the concrete strings k0..k3 / m0..m2; "raises a lookup error" is checked as "raises and never returns a value"',
                 'a stage without keys()/items() may refuse loudly; whatever it does return must be aligned with iteration'],
    bounds=dict(quick='dict-backed sources n in 0..3; every op at depth 1; op-class pairs at depth 2 (n=3; two symbolic selections n=2); programs with a memory cache additionally after a reversed pass by index / by key',
                thorough='all depth-2 pairs n in 1..3'),
    outside=['non-string keys', 'symbolic key strings', 'depth > 2'],
)

KF_SLICE = 'KF-C03-slice-lookup-outside-selection'
ABSENT = 'zz_absent'


def body_keys(n, ops, warm, *args):
    xs, ys, qs, rs, _ = U.split_params(args)
    try:
        b = U.build('dict', n, ops, xs, ys, qs, rs)
    except U.Refusal:
        rt.reached()
        return True
    ds, ref = b.ds, b.ref
    if not ref.iter_ok or ref.keys is None and not _maybe_keys(ds):
        rt.reached()
        return True
    # earlier accesses in another order (stateful stages such as a memory cache are then filled out of order) change nothing
    if warm == 'rev' and ref.indexable and ref.has_len:
        for j in range(len(ref.vals) - 1, -1, -1):
            ds[j]
    elif warm == 'keyrev' and ref.has_keys and ref.indexable:
        for k in list(ref.keys)[::-1]:
            ds[k]
    it = list(ds)
    # ---- keys(): one key per example in iteration order
    try:
        ks = list(ds.keys())
    except Exception:   # noqa
        ks = None
    if ref.has_keys and ks is None:
        return False
    if ks is not None:
        if ref.keys is None or ks != list(ref.keys) or len(ks) != len(it):
            return False
    # ---- items(): (key, example) pairs with the very examples iteration yields
    try:
        items = list(ds.items())
    except Exception:   # noqa
        items = None
    if ref.has_items and items is None:
        return False
    if items is not None:
        if ref.keys is None or len(items) != len(it):
            return False
        for j in range(len(it)):
            k, v = items[j]
            if k != ref.keys[j] or v != it[j]:
                return False
    rt.reached()
    # ---- lookup
    if ref.keys is not None:
        uniq = U.keys_unique(ref.keys)
        for j, k in enumerate(ref.keys):
            try:
                v = ds[k]
            except Exception:   # noqa
                if ref.has_keys:
                    return False        # a dataset that exposes this key must return its example
                continue
            if uniq and v != it[j]:
                return False
            if not uniq and not any(v == it[jj] for jj in range(len(it)) if ref.keys[jj] == k):
                return False
        # keys of the sources that are no longer part of this dataset, and a key that never existed
        gone = [k for k in (rt.KEYS[:n] + rt.KEYS_B[:U.NY]) if k not in ref.keys] + [ABSENT]
        for k in gone:
            if k != ABSENT and rt.known(KF_SLICE) and _slice_above_source(ops):
                continue
            try:
                v = ds[k]
            except Exception:   # noqa
                continue
            return False
    return True


def body_random_items(kind, n, epochs, *args):
    """datasets derived by reshuffling / local shuffling / prefetching still pair every yielded example with its own key in items(),
    or refuse items() loudly; a frozen snapshot of a reshuffle keeps keys(), items() and iteration aligned whatever the original does later"""
    from lazy_dataset.core import DictDataset
    xs, rsel, ch = list(args[:4]), list(args[4:13]), list(args[13:])
    vals = rt.mk(n, xs)
    src = DictDataset({rt.KEYS[j]: (rt.KEYS[j], v) for j, v in enumerate(vals)})      # every example carries its own key
    rng = rt.Rng(sel=rsel, choices=ch)
    if kind == 'reshuffle':
        ds = src.shuffle(True, rng=rng)
    elif kind == 'reshuffle_map':
        ds = src.shuffle(True, rng=rng).map(lambda e: (e[0], e[1] + 1))
    elif kind == 'local':
        ds = src.shuffle(True, rng=rng, buffer_size=2)
    elif kind == 'reshuffle_pf1':
        ds = src.shuffle(True, rng=rng).prefetch(1, 2)
    elif kind == 'reshuffle_filter':
        ds = src.shuffle(True, rng=rng).filter(lambda e: True)
    else:   # 'frozen'
        base = src.shuffle(True, rng=rng)
        ds = base.copy(freeze=True)
        ks0 = list(ds.keys())
        it0 = list(ds)
        if [e[0] for e in it0] != ks0:
            return False
        _ = list(base)                       # the original draws its next permutation
        _ = base.copy(freeze=True)           # ... and is frozen again
        ks1, it1, items1 = list(ds.keys()), list(ds), list(ds.items())
        rt.reached()
        if ks1 != ks0 or it1 != it0:
            return False
        if [k for k, _ in items1] != ks0 or [e for _, e in items1] != it0:
            return False
        for j, k in enumerate(ks0):
            if ds[k] != it0[j] or ds.items()[j] != (k, it0[j]):
                return False
        return True
    for _ in range(epochs):
        try:
            items = list(ds.items())
        except Exception:   # noqa
            rt.reached()
            return kind in ('reshuffle_pf1',) or False      # only a prefetching stage may refuse here
        seen = []
        for k, e in items:
            if e[0] != k:                    # paired with its own key
                return False
            seen.append(k)
        if sorted(seen) != sorted(rt.KEYS[:n]):
            return False
    rt.reached()
    return True


def body_derived_items(kind, n, *args):
    """datasets derived by filtering (predicate or exception based, also inside a prefetch) or by prefetching pair every yielded example with
    its own key in items() - or refuse items() loudly (prefetching stages only); nothing is shifted onto the key of a dropped example"""
    from lazy_dataset.core import DictDataset, FilterException
    xs, t = list(args[:4]), args[4]
    vals = rt.mk(n, xs)
    src = DictDataset({rt.KEYS[j]: (rt.KEYS[j], v) for j, v in enumerate(vals)})      # every example carries its own key

    def f(e):
        if e[1] > t:
            raise FilterException()
        return e
    may_refuse = kind.startswith('pf')
    if kind == 'filter':
        ds = src.filter(lambda e: not e[1] > t)
    elif kind == 'filter_map':
        ds = src.filter(lambda e: not e[1] > t).map(lambda e: (e[0], e[1] + 1))
    elif kind == 'catch':
        ds = src.map(f).catch()
    elif kind == 'pf1_cfe':
        ds = src.map(f).prefetch(1, 2, catch_filter_exception=True)
    elif kind == 'pfw_cfe':
        ds = src.map(f).prefetch(2, 2, catch_filter_exception=True)
    elif kind == 'pfw3_cfe':
        ds = src.map(f).prefetch(2, 3, catch_filter_exception=(FilterException,))
    elif kind == 'pf1':
        ds = src.prefetch(1, 2)
    elif kind == 'pfw_filter':
        ds = src.prefetch(2, 2).filter(lambda e: not e[1] > t)
    else:   # 'pfw'
        ds = src.prefetch(2, 2)
    dropping = kind not in ('pf1', 'pfw')
    want = [rt.KEYS[j] for j in range(n) if not (dropping and vals[j] > t)]
    it = list(ds)
    if [e[0] for e in it] != want:
        return False
    try:
        items = list(ds.items())
    except Exception:   # noqa
        rt.reached()
        return may_refuse
    rt.reached()
    if len(items) != len(want):
        return False
    for j in range(len(want)):
        k, e = items[j]
        if k != want[j] or e[0] != k or e != it[j]:
            return False
    return True


def _maybe_keys(ds):
    try:
        ds.keys()
        return True
    except Exception:   # noqa
        return False


SLICING = ('sl', 'idx', 'nparr', 'keys', 'shuffle', 'sort', 'sort_nokey', 'split', 'shard', 'efilt')
DELEGATING = ('map', 'parmap', 'filt', 'catch', 'copy', 'fcopy', 'kzip_b')
IDENTITY = (('tile', 1), ('cat0',), ('isp0',))


def _slice_above_source(ops):
    """region of the known finding: the string lookup reaches a SliceDataset (slice, index list, key list, shuffle, sort, split/shard,
    eager filter) through stages that hand the key to their input unchecked (map, lazy filter, catch, copy, key_zip).  A stage that checks
    membership itself (concatenate, intersperse, cache, items, eager cache) shields the lookup: there, removed keys must raise."""
    for op in reversed(ops):
        if op[0] in SLICING:
            return True
        if op in IDENTITY:
            continue             # tile(1), concatenate() and intersperse() with nothing return the dataset itself
        if op[0] not in DELEGATING:
            return False
    return False


STATEFUL = ('cache',)      # stages that keep state between accesses


def conditions(tier, seed):
    out, seen = [], set()
    sel = ('sl', 'idx', 'nparr')

    def add(n, ops):
        key = (n, ops)
        if key not in seen and U.valid_program(n, ops, 3):
            seen.add(key)
            out.append(key + ('none',))
            if any(o[0] in STATEFUL for o in ops) and n >= 2:
                out.append(key + ('rev',))
                out.append(key + ('keyrev',))
    for n in range(0, 4):
        for op in U.ALPHABET:
            add(n, (op,))
    if tier == 'quick':
        for a, b in U.class_pairs(U.ALPHABET):
            n = 3
            if a[0] in ('cat_b', 'isp_b', 'cat_self', 'isp_self', 'tile'):
                n = 2           # the dataset grows to n + 3 / 2n examples: keep the quick tier small
            if a[0] in ('shuffle', 'sort') and b[0] in sel:
                n = 2
            if a[0] in sel and b[0] in sel:
                n = 2
                if U.budget((a, b)) >= 4:
                    continue
            add(n, (a, b))
    else:
        for n in (1, 2, 3):
            for a in U.ALPHABET:
                for b in U.ALPHABET:
                    if a[0] in sel and b[0] in sel and n > 2:
                        continue
                    add(n, (a, b))
    return out


FAMILIES = [
    Family('random_items', body_random_items, ['kind', 'n', 'epochs'],
           [(f'x{i}', 'int') for i in range(4)] + [(f'r{i}', 'int') for i in range(9)] + [(f'c{i}', 'int') for i in range(6)],
           lambda tier, seed: [(k, n, e) for k in ('reshuffle', 'reshuffle_map', 'local', 'reshuffle_pf1', 'reshuffle_filter', 'frozen') for n in (0, 1, 2, 3)
                               for e in ((1, 2) if k != 'frozen' else (1,)) if n * e <= (4 if tier == 'quick' else 6)],
           timeout=dict(quick=150, thorough=300), desc='items() of reshuffled / locally shuffled / prefetched datasets pairs each example with its own key; frozen snapshots stay aligned'),
    Family('derived_items', body_derived_items, ['kind', 'n'], [(f'x{i}', 'int') for i in range(4)] + [('t', 'int')],
           lambda tier, seed: [(k, n) for k in ('filter', 'filter_map', 'catch', 'pf1_cfe', 'pfw_cfe', 'pfw3_cfe', 'pf1', 'pfw_filter', 'pfw')
                               for n in range(0, 4 if tier == 'quick' else 5)],
           timeout=dict(quick=150, thorough=300), desc='items() of filtered / exception-filtered / prefetched datasets (also catch_filter_exception inside a prefetch) '
           'pairs each yielded example with its own key or - prefetching stages only - refuses'),
    Family('keys', body_keys, ['n', 'ops', 'warm'], U.POOL_PARAMS, conditions, timeout=dict(quick=150, thorough=300),
           desc='keys()/items() aligned with iteration; ds[key] returns the example of that key; absent or removed keys raise'),
]
