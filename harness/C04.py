"""C04 - prefetch and parallel map are transparent: same examples, same order (E2 BMC + E1 forwarding)."""
from lazy_dataset.core import ListDataset, DictDataset, PrefetchDataset, ParMapDataset

from engine import rt
from engine.xh import Family
from harness import _e2

rt.quiet_logging()
rt.install_shims()

META = dict(
    engine='E2 AST->CFG->z3 bit-vector BMC of parallel_utils (single_thread_prefetch, lazy_parallel_map x 5 back ends) + one-step induction with a Houdini-pruned invariant for the order of single_thread_prefetch + E1 CrossHair for core.py forwarding',
    functions=['lazy_dataset.parallel_utils.single_thread_prefetch (+ nested worker)', 'lazy_dataset.parallel_utils.lazy_parallel_map (+ submit/result/terminate adapters of t, concurrent_mp, dill_mp, multiprocessing, mp)',
               'lazy_dataset.core.PrefetchDataset.__init__/__iter__/__len__/_single_thread_prefetch', 'lazy_dataset.core.ParMapDataset.__iter__', 'lazy_dataset.core.Dataset.prefetch/map'],
    stubs=_e2.STUBS + ['E1: lazy_parallel_map/single_thread_prefetch -> serial contract that records its call arguments'],
    assumptions=_e2.ASSUMPTIONS,
    bounds=dict(quick='E2: n<=2 source items, buffer<=2, workers<=2 (plus the thread pool at exactly n=3, buffer=2, workers=2, K=60), K=50 (single thread) / 60 (pool) steps, all schedules and completion orders; '
                      'single thread, order only, by induction: every n<=100, buffer 1..2, schedules of any length; E1: n<=3, buffer_size/num_workers unbounded symbolic ints',
                thorough='E2: single thread n<=3 (K=75) and n<=4 (K=95), buffer<=3; pools n<=3, buffer<=2, workers<=2, K=60; thread pool n<=3, buffer<=3, workers<=3, K=64; single thread, order only, by induction: every n<=100, buffer 1..3; E1 as quick'),
    outside=['n, buffer, workers above the bounds (except the order of single_thread_prefetch when its induction closes: n<=100; completeness at the end of the stream and everything about lazy_parallel_map stay bounded)', 'internals of queue/threading/executors (contracts)', 'pickling of functions for process pools', 'backend=False',
             'data races *inside* the mapped function / inside ds[i] of a stage when several pool threads evaluate examples of one frozen copy at the same time: '
             'E2 models each task as an atomic, independent step and E1 runs tasks serially (seed C04e, a non-atomic last-hit memo in ConcatenateDataset.__getitem__, is not detected)'],
)


def extra(tier, seed, ctx):
    out = _e2.run('C04', tier, seed, ctx, lambda g: ['order', 'complete'])
    induction(tier, ctx, out)
    return out


def induction(tier, ctx, out):
    """single_thread_prefetch, every dataset length: "each delivered example is the next source item" by one-step induction over the generated
    transition system with a Houdini-pruned invariant (engine/bmc/houdini.py).  Closed -> the order claim holds for every n <= 100 and schedules
    of any length; not closed / unsupported -> nothing is claimed beyond the BMC bounds (inconclusive, never a violation).  Completeness (nothing
    is lost at the *end* of the stream) stays a bounded claim of the `complete` query."""
    from engine.bmc import houdini
    Bmax = 2 if tier == 'quick' else 3
    r = houdini.prove_order(Bmax, timeout=170 if tier == 'quick' else 900)
    out['queries'] += r['queries']
    out['solver_time_s'] = round(out['solver_time_s'] + r['solver_s'], 1)
    out['coverage']['e2_induction_order'] = {k: r.get(k) for k in ('result', 'detail', 'claim', 'bounds', 'queries', 'solver_s', 'candidates', 'alive_after_start',
                                                                    'invariant_size', 'invariant_sample', 'secs')}
    ctx['log'](f"[C04] induction (order) single_thread_prefetch: {r['result']} ({r['detail']}; {r['queries']} queries, {r['secs']} s)")
    if r['result'] == 'closed':
        out['discharged'] += 3      # start state, inductive step (last round unsat), prologue
        out['samples'].insert(0, dict(query='induction single_thread_prefetch: ' + r['claim'],
                                      verdict=f"closed ({r['invariant_size']} of {r['candidates']} candidate facts inductive, 'not bad_order' among them)", solver_s=r['solver_s']))
    else:
        out['inconclusive'].append(f"induction over the dataset length (order) for single_thread_prefetch did not close ({r['result']}: {r['detail']}); "
                                   'the order claim stays bounded by the BMC groups')


custom_replay = _e2.custom_replay


def body_forward(backing, n, kind, with_key, x0, x1, x2, c, w, b):
    """core.py side: same examples/keys/len as the input pipeline, parameters forwarded unchanged"""
    from engine.shims import pool_shim
    xs = rt.mk(n, [x0, x1, x2])
    if backing == 'dict':
        src = DictDataset({rt.KEYS[i]: v for i, v in enumerate(xs)})
    else:
        src = ListDataset(list(xs))
    ds = src.map(lambda v: v + c)
    rt.assume(1 <= w)
    rt.assume(w <= b)
    if not rt.SYMBOLIC:
        rt.assume(b <= 8)          # real threads in replay
    del pool_shim.CALLS[:]
    if kind == 'parmap':
        p = src.map(lambda v: v + c, num_workers=w, buffer_size=b)
        want_call = ('lazy_parallel_map', 't', b, w)
    else:
        p = ds.prefetch(w, b)
        want_call = None
    if with_key:
        if backing != 'dict':
            rt.reached()
            return True
        if kind == 'pfw' or (kind == 'pf' and w > 1):
            # multi-worker prefetch has no keys(): items() must refuse loudly
            try:
                got = list(p.items())
            except (NotImplementedError, TypeError, AssertionError, RuntimeError):
                rt.reached()
                return True
            rt.reached()
            return got == list(ds.items())
        got = list(p.items())
        want = list(ds.items())
    else:
        got = list(p)
        want = list(ds)
    rt.reached()
    if got != want or len(p) != len(ds) or list(p) != list(ds):
        return False
    if rt.SYMBOLIC:
        calls = list(pool_shim.CALLS)
        if kind == 'parmap':
            if not calls or any(cc != want_call for cc in calls):
                return False
        else:
            for cc in calls:
                if cc[0] == 'single_thread_prefetch':
                    if not (w == 1 and cc[1] == b):
                        return False
                else:
                    if cc != ('lazy_parallel_map', 't', b, w):
                        return False
            if not calls:
                return False
    return True


def _conds(tier, seed):
    out = []
    for backing in ('list', 'dict'):
        for n in range(0, 4):
            for kind in ('pf', 'parmap'):
                for wk in (False, True):
                    out.append((backing, n, kind, wk))
    return out


FAMILIES = [
    Family('forward', body_forward, ['backing', 'n', 'kind', 'with_key'],
           [('x0', 'int'), ('x1', 'int'), ('x2', 'int'), ('c', 'int'), ('w', 'int'), ('b', 'int')], _conds, timeout=60,
           desc='PrefetchDataset/ParMapDataset deliver the input pipeline unchanged and forward buffer_size/num_workers/backend (serial contract stub)'),
]
