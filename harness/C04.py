"""C04 - prefetch and parallel map are transparent: same examples, same order (E2 BMC + E1 forwarding)."""
from lazy_dataset.core import ListDataset, DictDataset, PrefetchDataset, ParMapDataset

from engine import rt
from engine.xh import Family
from harness import _e2

rt.quiet_logging()
rt.install_shims()

META = dict(
    engine='E2 AST->CFG->z3 bit-vector BMC of parallel_utils (single_thread_prefetch, lazy_parallel_map x 5 back ends) + E1 CrossHair for core.py forwarding',
    functions=['lazy_dataset.parallel_utils.single_thread_prefetch (+ nested worker)', 'lazy_dataset.parallel_utils.lazy_parallel_map (+ submit/result/terminate adapters of t, concurrent_mp, dill_mp, multiprocessing, mp)',
               'lazy_dataset.core.PrefetchDataset.__init__/__iter__/__len__/_single_thread_prefetch', 'lazy_dataset.core.ParMapDataset.__iter__', 'lazy_dataset.core.Dataset.prefetch/map'],
    stubs=_e2.STUBS + ['E1: lazy_parallel_map/single_thread_prefetch -> serial contract that records its call arguments'],
    assumptions=_e2.ASSUMPTIONS,
    bounds=dict(quick='E2: n<=2 source items, buffer<=2, workers<=2 (plus the thread pool at exactly n=3, buffer=2, workers=2, K=60), K=50 (single thread) / 60 (pool) steps, all schedules and completion orders; '
                      'E1: n<=3, buffer_size/num_workers unbounded symbolic ints',
                thorough='E2: single thread n<=3 (K=75) and n<=4 (K=95), buffer<=3; pools n<=3, buffer<=2, workers<=2, K=60; thread pool n<=3, buffer<=3, workers<=3, K=64; E1 as quick'),
    outside=['n, buffer, workers above the bounds', 'internals of queue/threading/executors (contracts)', 'pickling of functions for process pools', 'backend=False'],
)


def extra(tier, seed, ctx):
    return _e2.run('C04', tier, seed, ctx, lambda g: ['order', 'complete'])


custom_replay = _e2.custom_replay


def body_forward(backing, n, kind, with_key, x0, x1, x2, c, w, b):
    """core.py side: same examples/keys/len as the input pipeline, parameters forwarded unchanged"""
    from engine.shims import pool_shim
    xs = rt.mk(n, [x0, x1, x2])
    if backing == 'dict':
        src = DictDataset({rt.KEYS[i]: v for i, v in enumerate(xs)})
    else:
        src = ListDataset(list(xs))
    ds = src.map(lambda v: v + c)
    rt.assume(1 <= w)
    rt.assume(w <= b)
    if not rt.SYMBOLIC:
        rt.assume(b <= 8)          # real threads in replay
    del pool_shim.CALLS[:]
    if kind == 'parmap':
        p = src.map(lambda v: v + c, num_workers=w, buffer_size=b)
        want_call = ('lazy_parallel_map', 't', b, w)
    else:
        p = ds.prefetch(w, b)
        want_call = None
    if with_key:
        if backing != 'dict':
            rt.reached()
            return True
        if kind == 'pfw' or (kind == 'pf' and w > 1):
            # multi-worker prefetch has no keys(): items() must refuse loudly
            try:
                got = list(p.items())
            except (NotImplementedError, TypeError, AssertionError, RuntimeError):
                rt.reached()
                return True
            rt.reached()
            return got == list(ds.items())
        got = list(p.items())
        want = list(ds.items())
    else:
        got = list(p)
        want = list(ds)
    rt.reached()
    if got != want or len(p) != len(ds) or list(p) != list(ds):
        return False
    if rt.SYMBOLIC:
        calls = list(pool_shim.CALLS)
        if kind == 'parmap':
            if not calls or any(cc != want_call for cc in calls):
                return False
        else:
            for cc in calls:
                if cc[0] == 'single_thread_prefetch':
                    if not (w == 1 and cc[1] == b):
                        return False
                else:
                    if cc != ('lazy_parallel_map', 't', b, w):
                        return False
            if not calls:
                return False
    return True


def _conds(tier, seed):
    out = []
    for backing in ('list', 'dict'):
        for n in range(0, 4):
            for kind in ('pf', 'parmap'):
                for wk in (False, True):
                    out.append((backing, n, kind, wk))
    return out


FAMILIES = [
    Family('forward', body_forward, ['backing', 'n', 'kind', 'with_key'],
           [('x0', 'int'), ('x1', 'int'), ('x2', 'int'), ('c', 'int'), ('w', 'int'), ('b', 'int')], _conds, timeout=60,
           desc='PrefetchDataset/ParMapDataset deliver the input pipeline unchanged and forward buffer_size/num_workers/backend (serial contract stub)'),
]
