"""C05 - stopping a prefetching iteration anywhere terminates cleanly (E2 BMC)."""
from engine import rt
from harness import _e2

META = dict(
    engine='E2 AST->CFG->z3 bit-vector BMC of parallel_utils (single_thread_prefetch, lazy_parallel_map x 5 back ends)',
    functions=['lazy_dataset.parallel_utils.single_thread_prefetch (+ nested worker)', 'lazy_dataset.parallel_utils.lazy_parallel_map (+ submit/result/terminate adapters of every back end)'],
    stubs=_e2.STUBS,
    assumptions=_e2.ASSUMPTIONS + ['"finite time" = completeness threshold: every execution finishes or is reported deadlocked within K steps',
                                   'close(), break and garbage collection of the generator are the same GeneratorExit at the yield (PEP 342); a consumer error inside its own loop body is that path too'],
    bounds=dict(quick='n<=2 source items, buffer 1..2, workers<=2 (plus the thread pool at exactly n=3, buffer=2, workers=2), every stop point close_at in {never, 1..n}, every failure point, K=50/60 steps, all schedules',
                thorough='single thread n<=3 (K=75) and n<=4 (K=95), buffer 1..3; pools n<=3, buffer<=2, workers<=2, K=60; thread pool n<=3, buffer<=3, workers<=3, K=64'),
    outside=['backend multiprocessing: its terminate adapter is intentionally empty because Pool.__exit__ terminates; "cancelled" is decided there by after_return',
             'interpreter shutdown', 'process-pool worker death', 'bounds above the stated ones'],
)

KNOWN = {}


def extra(tier, seed, ctx):
    return _e2.run('C05', tier, seed, ctx, lambda g: ['deadlock', 'after_return'] + (['cancelled'] if g['system'] == 'lpm' and g['backend'] != 'multiprocessing' else []), known_carve=KNOWN)


custom_replay = _e2.custom_replay
