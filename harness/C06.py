"""C06 - errors in background work surface at the right position, never swallowed (E2 BMC + E1 catch_filter_exception)."""
from lazy_dataset.core import ListDataset, DictDataset, FilterException

from engine import rt
from engine.xh import Family
from harness import _e2

rt.quiet_logging()
rt.install_shims()

META = dict(
    engine='E2 AST->CFG->z3 bit-vector BMC (failure position and kind are solver variables) + E1 CrossHair for the catch_filter_exception paths of PrefetchDataset',
    functions=['lazy_dataset.parallel_utils.single_thread_prefetch', 'lazy_dataset.parallel_utils.lazy_parallel_map (every back end)',
               'lazy_dataset.core.PrefetchDataset.__iter__ (catcher / unique_object filter)', 'lazy_dataset.core.PrefetchDataset._single_thread_prefetch',
               'lazy_dataset.core.CatchExceptionDataset.__iter__'],
    stubs=_e2.STUBS + ['E1: lazy_parallel_map/single_thread_prefetch -> serial contract'],
    assumptions=_e2.ASSUMPTIONS + ['one failing position per run in E2 (source position or task index); the failure is an Exception, a BaseException-only, or queue.Empty raised by the user code itself; E1: arbitrary subset of failing positions'],
    bounds=dict(quick='E2: n<=2, buffer<=2, workers<=2 (plus the thread pool at exactly n=3, buffer=2, workers=2: the smallest instance where a full buffer meets out-of-order completion), every failure position 0..n, both kinds; E1: n<=3, failure plan per position in {ok, caught, subclass of caught, foreign}',
                thorough='E2: single thread n<=3 and n<=4, buffer<=3; pools n<=3 buffer<=2 workers<=2; thread pool n<=3 buffer<=3 workers<=3; E1: n<=4'),
    outside=['several simultaneous failures inside running pool tasks (E2 has one failing task per run)', 'bounds above the stated ones'],
)

KF_SRC = 'KF-C06-parmap-source-error-drops-buffered'
KNOWN = {('lpm', b, 'src_error_position'): KF_SRC for b in _e2.BACKENDS}


def extra(tier, seed, ctx):
    def modes(g):
        if g['system'] == 'stp':
            return ['error_position', 'error_position_base', 'error_position_lib']
        # known finding KF_SRC: the strong query is the witness (must still be sat and reproduce), the weak one is what must hold
        return ['error_position', 'error_position_base', 'error_position_lib', 'src_error_position'] + (['src_error_weak'] if rt.known(KF_SRC) else [])
    return _e2.run('C06', tier, seed, ctx, modes, known_carve=KNOWN, witness_lost=True)


custom_replay = _e2.custom_replay


class E1(Exception):
    pass


class E1Sub(E1):
    pass


class E2(Exception):
    pass


class FSub(FilterException):
    pass


def body_catchfilter(backing, n, workers, backend, sel, with_key, x0, x1, x2, x3, r0, r1, r2, r3):
    """catch_filter_exception: exactly the examples whose evaluation raised a selected type are omitted, order kept,
    other types propagate at their position"""
    xs = rt.mk(n, [x0, x1, x2, x3])
    rs = rt.mk(n, [r0, r1, r2, r3])
    for r in rs:
        rt.assume(0 <= r)
        rt.assume(r <= 4)
    if sel == 'true':
        caught, c1, c2, foreign = True, FilterException, FSub, E2
    elif sel == 'type':
        caught, c1, c2, foreign = E1, E1, E1Sub, E2
    else:
        caught, c1, c2, foreign = (E1, FilterException), E1, FSub, E2
    if backing == 'dict':
        src = DictDataset({rt.KEYS[i]: (x, r) for i, (x, r) in enumerate(zip(xs, rs))})
    else:
        src = ListDataset([(x, r) for x, r in zip(xs, rs)])

    def f(ex):
        x, r = ex
        if r == 1:
            raise c1(x)
        if r == 2:
            raise c2(x)
        if r == 3:
            raise foreign(x)
        if r == 4:
            return None          # an example whose value is None is an example like any other
        return x
    p = src.map(f).prefetch(workers, 2, backend=backend, catch_filter_exception=caught)
    exp, err = [], None
    for i, (x, r) in enumerate(zip(xs, rs)):
        if r in (1, 2):
            continue
        if r == 3:
            err = x
            break
        v = None if r == 4 else x
        exp.append((rt.KEYS[i], v) if with_key else v)
    got = []
    try:
        if with_key:
            if backing != 'dict':
                rt.reached()
                return True
            try:
                it = iter(p.items())
                for v in it:
                    got.append(v)
            except (NotImplementedError,):
                rt.reached()
                return workers > 1          # multi-worker prefetch has no keys(): loud refusal
        else:
            for v in p:
                got.append(v)
    except E2 as e:
        rt.reached()
        return err is not None and e.args[0] == err and got == exp
    rt.reached()
    if err is not None or got != exp:
        return False
    # a dataset that filters has no length
    try:
        len(p)
        return False
    except TypeError:
        return True


def body_catchfilter_random(backing, n, workers, epochs, x0, x1, x2, x3, r0, r1, r2, r3, *sel):
    """catch_filter_exception above a per-epoch reshuffle, the same prefetching object iterated again and again: every epoch omits exactly the
    examples whose evaluation raised in *that* epoch, in the order an equally seeded failure-free twin defines; foreign types propagate"""
    xs = rt.mk(n, [x0, x1, x2, x3])
    rs = rt.mk(n, [r0, r1, r2, r3])
    for r in rs:
        rt.assume(0 <= r)
        rt.assume(r <= 2)
    keys = rt.KEYS[:n]

    def mk():
        if backing == 'dict':
            return DictDataset({k: (x, r, k) for k, x, r in zip(keys, xs, rs)})
        return ListDataset([(x, r, k) for k, x, r in zip(keys, xs, rs)])

    def f(ex):
        x, r, k = ex
        if r == 1:
            raise FilterException(x)
        if r == 2:
            raise E2(x)
        return (x, k)
    rng_a, rng_b = rt.Rng(sel=list(sel)), rt.Rng(sel=list(sel))
    p = mk().shuffle(True, rng=rng_a).map(f).prefetch(workers, 2, catch_filter_exception=True)
    twin = mk().shuffle(True, rng=rng_b)
    for _ in range(epochs):
        order = list(twin)
        exp, err = [], None
        for (x, r, k) in order:
            if r == 1:
                continue
            if r == 2:
                err = x
                break
            exp.append((x, k))
        got = []
        try:
            for v in p:
                got.append(v)
        except E2 as e:
            if err is None or got != exp or e.args[0] != err:
                return False
            continue
        if err is not None or got != exp:
            return False
    rt.reached()
    return True


def _conds(tier, seed):
    out = []
    nmax = 3 if tier == 'quick' else 4
    for backing in ('list', 'dict'):
        for n in range(0, nmax + 1):
            for workers, backend in ((1, 't'), (2, 't'), (2, 'dill_mp')):
                for sel in ('true', 'type', 'tuple'):
                    for wk in ((False, True) if backing == 'dict' else (False,)):
                        if backend != 't' and (wk or n == 0 or (backing == 'dict' and tier == 'quick')):
                            continue         # (process pool: value iteration; the replay starts a real pool)
                        out.append((backing, n, workers, backend, sel, wk))
    return out


FAMILIES = [
    Family('catchfilter_random', body_catchfilter_random, ['backing', 'n', 'workers', 'epochs'],
           [(f'x{i}', 'int') for i in range(4)] + [(f'r{i}', 'int') for i in range(4)] + [(f's{i}', 'int') for i in range(9)],
           lambda tier, seed: [(b, n, w, e) for b in ('list', 'dict') for n in (1, 2, 3) for w in (1, 2) for e in (2, 3) if n * e <= (4 if tier == 'quick' else 6)],
           timeout=dict(quick=150, thorough=900), desc='catch_filter_exception above a per-epoch reshuffle, several epochs on one prefetching object (serial contract stub)'),
    Family('catchfilter', body_catchfilter, ['backing', 'n', 'workers', 'backend', 'sel', 'with_key'],
           [(f'x{i}', 'int') for i in range(4)] + [(f'r{i}', 'int') for i in range(4)], _conds, timeout=dict(quick=60, thorough=300),
           desc='prefetch(..., catch_filter_exception=...) on the single-thread path, the thread pool and a process pool (serial contract stub; for process pools arguments, results and exceptions cross the boundary as pickled copies)'),
]
