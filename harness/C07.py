"""C07 - prefetch read-ahead is bounded by the buffer size (E2 BMC state invariant + E1 constructor assertions)."""
from lazy_dataset.core import ListDataset, PrefetchDataset

from engine import rt
from engine.xh import Family
from harness import _e2

rt.quiet_logging()
rt.install_shims()

META = dict(
    engine='E2 AST->CFG->z3 bit-vector BMC (counters pulled/started/delivered in the encoded state) + E1 CrossHair for PrefetchDataset.__init__',
    functions=['lazy_dataset.parallel_utils.single_thread_prefetch', 'lazy_dataset.parallel_utils.lazy_parallel_map (every back end)', 'lazy_dataset.core.PrefetchDataset.__init__'],
    stubs=_e2.STUBS,
    assumptions=_e2.ASSUMPTIONS + ['consumer pauses are schedules in which the consumer is never chosen while it sits at the yield'],
    bounds=dict(quick='n<=2 (single thread, pools) with buffer<=2, workers<=2, thread pool also at exactly n=3, buffer=2, workers=2, and every prefix of <= 44 steps of the thread pool with n<=5, buffer=2, workers=2: pulled-delivered <= B+2 and started-delivered <= B in every state of every schedule; '
                      'plus single thread n<=6, buffer 1..3: every execution prefix of <= 34 steps',
                thorough='single thread n<=3 and n<=4, buffer<=3; pools n<=3, buffer<=2, workers<=2; thread pool n<=3, buffer<=3, workers<=3; prefixes: single thread n<=8 buffer 1..4 K=44, thread pool n<=5 buffer 1..3 K=44'),
    outside=['dataset lengths above the bounds (complete executions: n<=2/3; execution prefixes of <= K steps: n<=6/8 with buffer 1..3/4); no induction over n is claimed'],
)


def extra(tier, seed, ctx):
    return _e2.run('C07', tier, seed, ctx, lambda g: ['readahead_pulled'] + (['readahead_started'] if g['system'] == 'lpm' else []),
                   extra_groups=_e2.prefix_plan(tier))


custom_replay = _e2.custom_replay


def body_init(w, b):
    """buffer_size >= num_workers >= 1 is enforced at construction, for every integer pair"""
    ds = ListDataset([1, 2, 3])
    ok = w >= 1 and b >= w
    try:
        p = PrefetchDataset(ds, w, b)
    except AssertionError:
        rt.reached()
        return not ok
    rt.reached()
    return ok and p.buffer_size == b and p.num_workers == w


FAMILIES = [
    Family('init', body_init, [], [('w', 'int'), ('b', 'int')], lambda tier, seed: [()], timeout=30,
           desc='PrefetchDataset.__init__ rejects exactly the (num_workers, buffer_size) pairs that violate buffer_size >= num_workers >= 1'),
]
