"""C07 - prefetch read-ahead is bounded by the buffer size (E2 BMC state invariant + E1 constructor assertions)."""
from lazy_dataset.core import ListDataset, PrefetchDataset

from engine import rt
from engine.xh import Family
from harness import _e2

rt.quiet_logging()
rt.install_shims()

META = dict(
    engine='E2 AST->CFG->z3 bit-vector BMC (counters pulled/started/delivered in the encoded state) + one-step induction over the same transition system (potential functions synthesised by z3/LIA, inductiveness decided by z3/BV) + E1 CrossHair for PrefetchDataset.__init__',
    functions=['lazy_dataset.parallel_utils.single_thread_prefetch', 'lazy_dataset.parallel_utils.lazy_parallel_map (every back end)', 'lazy_dataset.core.PrefetchDataset.__init__'],
    stubs=_e2.STUBS,
    assumptions=_e2.ASSUMPTIONS + ['consumer pauses are schedules in which the consumer is never chosen while it sits at the yield'],
    bounds=dict(quick='n<=2 (single thread, pools) with buffer<=2, workers<=2, thread pool also at exactly n=3, buffer=2, workers=2, and every prefix of <= 44 steps of the thread pool with n<=5, buffer=2, workers=2: pulled-delivered <= B+2 and started-delivered <= B in every state of every schedule; '
                      'plus single thread n<=6, buffer 1..3: every execution prefix of <= 34 steps; single thread by induction: every n<=100, buffer 1..4, schedules of any length',
                thorough='single thread n<=3 and n<=4, buffer<=3; pools n<=3, buffer<=2, workers<=2; thread pool n<=3, buffer<=3, workers<=3; prefixes: single thread n<=8 buffer 1..4 K=44, thread pool n<=5 buffer 1..3 K=44; single thread by induction: every n<=100, buffer 1..6, schedules of any length'),
    outside=['lazy_parallel_map: dataset lengths above the bounds (complete executions: n<=2/3; execution prefixes of <= K steps: n<=5); its task-slot state is sized by n, no induction is attempted', 'single_thread_prefetch: n > 100 (8-bit counters), buffer sizes above 4/6 (explicit queue slots); the induction claim is made only when its queries close, otherwise the claim is the bounded one'],
)


def extra(tier, seed, ctx):
    out = _e2.run('C07', tier, seed, ctx, lambda g: ['readahead_pulled'] + (['readahead_started'] if g['system'] == 'lpm' else []),
                  extra_groups=_e2.prefix_plan(tier))
    induction(tier, ctx, out)
    return out


def induction(tier, ctx, out):
    """single_thread_prefetch, every dataset length: one-step induction over the generated transition system (engine/bmc/induct.py).
    Closed -> the read-ahead bound holds for every n <= 100 and schedules of any length; not closed / unsupported -> nothing is claimed
    beyond the BMC bounds (inconclusive, never a violation: violations come from the BMC queries, which are replayed on real threads)."""
    from engine.bmc import induct
    Bmax = 4 if tier == 'quick' else 6
    r = induct.prove_readahead(Bmax, timeout=170 if tier == 'quick' else 900)
    twin = induct.prove_readahead(Bmax, timeout=170 if tier == 'quick' else 900, slack=1)      # the same machinery must NOT close for B + 1 while B + 2 is reachable
    nq = len(r['queries']) + len(twin['queries'])
    out['queries'] += nq
    out['solver_time_s'] = round(out['solver_time_s'] + sum(q['secs'] for q in r['queries'] + twin['queries']), 1)
    tight = [b for b in out['coverage'].get('e2_bounds', []) if b['system'] == 'single_thread_prefetch' and 'prefix' in b['claim']]
    info = dict(result=r['result'], detail=r['detail'], claim=r['claim'], bounds=r['bounds'], queries=r['queries'], invariant=r.get('invariant'),
                phase_variable=r.get('phase_variable'), secs=r['secs'],
                tightness_twin=dict(claim=twin['claim'], result=twin['result'], note='informational: with the bound B+1 (which the prefix groups show to be '
                                    'exceeded: readahead_tight reaches B+2) the induction must not close; a twin that closes while readahead_tight is sat is a harness error'))
    out['coverage']['e2_induction'] = info
    ctx['log'](f"[C07] induction single_thread_prefetch: {r['result']} ({r['detail']}; {len(r['queries'])} queries, {r['secs']} s); twin with B+1: {twin['result']}")
    if r['result'] == 'closed':
        out['discharged'] += sum(1 for q in r['queries'] if q.get('expected') == q['result'])
        out['samples'].insert(0, dict(query='induction single_thread_prefetch: ' + r['claim'], verdict='closed (prologue, step, safety queries unsat; non-vacuity queries sat)',
                                      solver_s=r['secs']))
        if twin['result'] == 'closed' and tight:
            out['harness_errors'].append('induction closes for the bound B+1 although the step-bounded groups reach B+2: the induction machinery is unsound')
    else:
        out['inconclusive'].append(f"induction over the dataset length for single_thread_prefetch did not close ({r['result']}: {r['detail']}); "
                                   'the read-ahead claim stays bounded by the BMC groups')


custom_replay = _e2.custom_replay


def body_init(w, b):
    """buffer_size >= num_workers >= 1 is enforced at construction, for every integer pair"""
    ds = ListDataset([1, 2, 3])
    ok = w >= 1 and b >= w
    try:
        p = PrefetchDataset(ds, w, b)
    except AssertionError:
        rt.reached()
        return not ok
    rt.reached()
    return ok and p.buffer_size == b and p.num_workers == w


FAMILIES = [
    Family('init', body_init, [], [('w', 'int'), ('b', 'int')], lambda tier, seed: [()], timeout=30,
           desc='PrefetchDataset.__init__ rejects exactly the (num_workers, buffer_size) pairs that violate buffer_size >= num_workers >= 1'),
]
