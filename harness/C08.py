"""C08 - evaluation is demand-driven: nothing runs early, nothing runs twice (E1 CrossHair).

Oracle: the same program written with plain Python generators / direct calls (the executable meaning of "demand-driven");
the log of user-function applications of the real pipeline must equal the log of that reference, step by step."""
import itertools

import lazy_dataset
from lazy_dataset.core import ListDataset, DictDataset

from engine import rt
from engine import universe as U
from engine.xh import Family

rt.quiet_logging()
rt.install_shims()

META = dict(
    engine='E1 CrossHair 0.0.110',
    functions=['generator-based __iter__ of MapDataset, FilterDataset, SliceDataset, ConcatenateDataset, ZipDataset, KeyZipDataset, BatchDataset, UnbatchDataset, ItemsDataset, CacheDataset, '
               'CatchExceptionDataset, PrefetchDataset, IntersperseDataset', 'point-wise __getitem__ of MapDataset, SliceDataset, ConcatenateDataset, BatchDataset, ZipDataset, KeyZipDataset, CacheDataset',
               'constructors of all lazy combinators'],
    stubs=['numpy -> np_shim', 'pickle -> pickle_shim', 'single_thread_prefetch/lazy_parallel_map -> serial contract (the read-ahead of the real threads is C07)', 'rng -> engine.rt.Rng',
           'sources -> containers that count example reads'],
    assumptions=['every user function logs (stage, example); examples carry a string tag so that an application identifies the source example it belongs to',
                 'reference = the same program written with plain Python generators; logs must be equal after construction (empty), after the first k results and after point-wise access',
                 'eager operations (filter(lazy=False), sort, groupby, cache(lazy=False)) are the explicit exceptions of the statement and not part of this check'],
    bounds=dict(quick='16 program templates, n <= 3 source examples, every prefix length k in 0..len', thorough='n <= 4'),
    outside=['demand-driven evaluation order: templates beyond the 16 listed; construction: compositions deeper than two lazy stages', 'real prefetch threads'],
)


class CountingList(list):
    reads = 0

    def __getitem__(self, i):
        self.reads += 1
        return list.__getitem__(self, i)

    def __iter__(self):
        for j in range(len(self)):
            self.reads += 1
            yield list.__getitem__(self, j)


class CountingDict(dict):
    reads = 0

    def __getitem__(self, k):
        self.reads += 1
        return dict.__getitem__(self, k)


def tag_of(ex):
    """the source tags inside a (nested) example, in order"""
    if isinstance(ex, str):
        return [ex] if ex.startswith('s') or ex.startswith('z') else []
    if isinstance(ex, (tuple, list)):
        out = []
        for v in ex:
            out += tag_of(v)
        return out
    return []


class Fns:
    def __init__(self, log):
        self.log = log

    def f(self, sid, c):
        def fn(ex):
            self.log.append((sid, tuple(tag_of(ex))))
            return U.addc(ex, c)
        return fn

    def p(self, sid, t):
        def fn(ex):
            self.log.append((sid, tuple(tag_of(ex))))
            return U.leaf(ex) > t
        return fn

    def a(self, sid, inner=None):
        """an apply function (receives the dataset)"""
        def fn(ds):
            self.log.append((sid, 'apply'))
            return ds if inner is None else inner(ds)
        return fn


def _mk(n, xs, prefix, backing):
    vals = [(x, f'{prefix}{i}') for i, x in enumerate(rt.mk(n, xs))]
    keys = (rt.KEYS if prefix == 's' else rt.KEYS_B)[:n]
    if backing == 'dict':
        c = CountingDict(dict(zip(keys, vals)))
        return DictDataset(c), c, vals, keys
    c = CountingList(vals)
    return ListDataset(c), c, vals, None


# each template: build(real sources, fns, params) -> dataset ; ref(values, fns, params) -> generator
def t_map_map(A, B, F, P):
    return A.map(F.f(1, P[0])).map(F.f(2, P[1]))


def r_map_map(a, b, F, P):
    f, g = F.f(1, P[0]), F.f(2, P[1])
    return (g(f(x)) for x in a)


def t_map_filter_map(A, B, F, P):
    return A.map(F.f(1, P[0])).filter(F.p(2, P[1])).map(F.f(3, P[2]))


def r_map_filter_map(a, b, F, P):
    f, p, g = F.f(1, P[0]), F.p(2, P[1]), F.f(3, P[2])
    return (g(y) for y in (f(x) for x in a) if p(y))


def _batches(gen, bs):
    cur = []
    for x in gen:
        cur.append(x)
        if len(cur) >= bs:
            yield cur
            cur = []
    if cur:
        yield cur


def t_map_batch_map(A, B, F, P):
    return A.map(F.f(1, P[0])).batch(2).map(F.f(2, P[1]))


def r_map_batch_map(a, b, F, P):
    f, g = F.f(1, P[0]), F.f(2, P[1])
    return (g(bt) for bt in _batches((f(x) for x in a), 2))


def t_batch_unbatch(A, B, F, P):
    return A.map(F.f(1, P[0])).batch(2).unbatch().map(F.f(2, P[1]))


def r_batch_unbatch(a, b, F, P):
    f, g = F.f(1, P[0]), F.f(2, P[1])
    return (g(x) for bt in _batches((f(x) for x in a), 2) for x in bt)


def t_slice(A, B, F, P):
    return A.map(F.f(1, P[0]))[P[3]:P[4]].map(F.f(2, P[1]))


def r_slice(a, b, F, P):
    f, g = F.f(1, P[0]), F.f(2, P[1])
    pos = U.ref_slice_positions(len(a), P[3], P[4], None)
    return (g(f(a[j])) for j in pos)


def t_rev(A, B, F, P):
    return A.map(F.f(1, P[0]))[::-1].map(F.f(2, P[1]))


def r_rev(a, b, F, P):
    f, g = F.f(1, P[0]), F.f(2, P[1])
    return (g(f(a[j])) for j in range(len(a) - 1, -1, -1))


def t_concat(A, B, F, P):
    return A.map(F.f(1, P[0])).concatenate(B.map(F.f(2, P[1]))).map(F.f(3, P[2]))


def r_concat(a, b, F, P):
    f, f2, g = F.f(1, P[0]), F.f(2, P[1]), F.f(3, P[2])
    return (g(y) for y in itertools.chain((f(x) for x in a), (f2(x) for x in b)))


def t_zip(A, B, F, P):
    return A.map(F.f(1, P[0])).zip(A.map(F.f(2, P[1]))).map(F.f(3, P[2]))


def r_zip(a, b, F, P):
    f, f2, g = F.f(1, P[0]), F.f(2, P[1]), F.f(3, P[2])
    return (g(y) for y in zip((f(x) for x in a), (f2(x) for x in a)))


def t_items(A, B, F, P):
    return A.map(F.f(1, P[0])).items().map(F.f(2, P[1]))


def r_items(a, b, F, P, keys=None):
    f, g = F.f(1, P[0]), F.f(2, P[1])
    return (g((rt.KEYS[j], f(x))) for j, x in enumerate(a))


def t_catch(A, B, F, P):
    return A.map(F.f(1, P[0])).catch().map(F.f(2, P[1]))


def t_cache(A, B, F, P):
    return A.map(F.f(1, P[0])).cache().map(F.f(2, P[1]))


def t_copy(A, B, F, P):
    return A.map(F.f(1, P[0])).copy().map(F.f(2, P[1])).copy(freeze=True)


def t_pf1(A, B, F, P):
    return A.map(F.f(1, P[0])).prefetch(1, 2).map(F.f(2, P[1]))


def t_filter_batch(A, B, F, P):
    return A.filter(F.p(1, P[0])).map(F.f(2, P[1])).batch(2)


def r_filter_batch(a, b, F, P):
    p, f = F.p(1, P[0]), F.f(2, P[1])
    return _batches((f(x) for x in a if p(x)), 2)


def t_isp(A, B, F, P):
    return A.map(F.f(1, P[0])).intersperse(B.map(F.f(2, P[1])))


def r_isp(a, b, F, P):
    f, f2 = F.f(1, P[0]), F.f(2, P[1])
    its = [(f(x) for x in a), (f2(x) for x in b)]
    return (next(its[d]) for d, _ in U.intersperse_order([len(a), len(b)]))


def t_kzip(A, B, F, P):
    return A.map(F.f(1, P[0])).key_zip(A.map(F.f(2, P[1])))


def r_kzip(a, b, F, P):
    f, f2 = F.f(1, P[0]), F.f(2, P[1])
    return zip((f(x) for x in a), (f2(x) for x in a))


TEMPLATES = {
    'map_map': (t_map_map, r_map_map, 'list'), 'map_filter_map': (t_map_filter_map, r_map_filter_map, 'list'), 'map_batch_map': (t_map_batch_map, r_map_batch_map, 'list'),
    'batch_unbatch': (t_batch_unbatch, r_batch_unbatch, 'list'), 'slice': (t_slice, r_slice, 'list'), 'rev': (t_rev, r_rev, 'dict'), 'concat': (t_concat, r_concat, 'list'),
    'zip': (t_zip, r_zip, 'list'), 'items': (t_items, r_items, 'dict'), 'catch': (t_catch, r_map_map, 'list'), 'cache': (t_cache, r_map_map, 'list'), 'copy': (t_copy, r_map_map, 'dict'),
    'pf1': (t_pf1, r_map_map, 'list'), 'filter_batch': (t_filter_batch, r_filter_batch, 'list'), 'isp': (t_isp, r_isp, 'list'), 'kzip': (t_kzip, r_kzip, 'dict'),
}


def body_prefix(name, n, k, x0, x1, x2, x3, y0, y1, y2, c0, c1, c2, a, b):
    """construction runs nothing; the first k results apply the user functions exactly as the plain-generator program does"""
    build, ref, backing = TEMPLATES[name]
    P = [c0, c1, c2, a, b]
    log_real, log_ref = [], []
    A, ca, va, _ = _mk(n, [x0, x1, x2, x3], 's', backing)
    m = min(n, 2) if name in ('concat', 'isp') else 0
    if name == 'isp':
        rt.assume(n > 0)
        m = max(m, 1)
    B, cb, vb, _ = _mk(m, [y0, y1, y2], 'z', backing)
    ds = build(A, B, Fns(log_real), P)
    if log_real or ca.reads or cb.reads:
        return False                         # constructing the pipeline executed a user function or read an example
    gen = ref(list(va), list(vb), Fns(log_ref), P)
    it = iter(ds)
    got, want = [], []
    for _ in range(k):
        try:
            want.append(next(gen))
        except StopIteration:
            # the reference is exhausted: the real iterator must be, too (and may have evaluated the same tail)
            try:
                next(it)
                return False
            except StopIteration:
                break
        got.append(next(it))
    rt.reached()
    if got != want:
        return False
    if name == 'pf1':
        # prefetch may run ahead (buffer_size + 2, here 4): per stage, the reference log is a prefix of the real one
        for sid in (1, 2):
            rr = [e for e in log_real if e[0] == sid]
            ff = [e for e in log_ref if e[0] == sid]
            if not _is_prefix(ff, rr) or len(rr) > len(ff) + (4 if sid == 1 else 0):
                return False
        return True
    return log_real == log_ref


def _is_prefix(a, b):
    return len(a) <= len(b) and b[:len(a)] == a


def body_second_pass(n, x0, x1, x2, x3, c0, c1):
    """a second iteration of a cached pipeline applies nothing upstream of the cache again"""
    log = []
    A, ca, va, _ = _mk(n, [x0, x1, x2, x3], 's', 'list')
    F = Fns(log)
    ds = A.map(F.f(1, c0)).cache().map(F.f(2, c1))
    a = list(ds)
    n1 = len([e for e in log if e[0] == 1])
    b = list(ds)
    n2 = len([e for e in log if e[0] == 1])
    rt.reached()
    return a == b and n1 == n and n2 == n and len([e for e in log if e[0] == 2]) == 2 * n


def body_pointwise(name, n, j, x0, x1, x2, x3, y0, y1, y2, c0, c1, c2, i):
    """ds[i] / ds[key] applies the user functions only to the examples that make up that one result"""
    log = []
    F = Fns(log)
    backing = 'dict' if name in ('key_map', 'key_concat', 'key_kzip') else 'list'
    A, ca, va, keys = _mk(n, [x0, x1, x2, x3], 's', backing)
    B, cb, vb, _ = _mk(2, [y0, y1, y2], 'z', backing)
    f, f2, g = F.f(1, c0), F.f(2, c1), F.f(3, c2)
    rt.assume(0 <= i)
    if name == 'map':
        ds, L = A.map(f).map(g), n
        want = lambda q: [(1, (f's{q}',)), (3, (f's{q}',))]
    elif name == 'batch':
        ds, L = A.map(f).batch(2), (n + 1) // 2
        want = lambda q: [(1, (f's{p}',)) for p in range(2 * q, min(2 * q + 2, n))]
    elif name == 'concat':
        ds, L = A.map(f).concatenate(B.map(f2)), n + 2
        want = lambda q: [(1, (f's{q}',))] if q < n else [(2, (f'z{q - n}',))]
    elif name == 'slice':
        ds, L = A.map(f)[::-1].map(g), n
        want = lambda q: [(1, (f's{n - 1 - q}',)), (3, (f's{n - 1 - q}',))]
    elif name == 'zip':
        ds, L = A.map(f).zip(A.map(f2)), n
        want = lambda q: [(1, (f's{q}',)), (2, (f's{q}',))]
    elif name == 'cache':
        ds, L = A.map(f).cache(), n
        want = lambda q: [(1, (f's{q}',))]
    elif name in ('key_map', 'key_concat', 'key_kzip'):
        if name == 'key_map':
            ds = A.map(f).map(g)
            want = lambda q: [(1, (f's{q}',)), (3, (f's{q}',))]
        elif name == 'key_concat':
            ds = A.map(f).concatenate(B.map(f2))
            want = lambda q: [(1, (f's{q}',))]
        else:
            ds = A.map(f).key_zip(A.map(f2))
            want = lambda q: [(1, (f's{q}',)), (2, (f's{q}',))]
        if log or ca.reads:
            return False
        if n == 0:
            rt.reached()
            return True
        q = j % n
        _ = ds[keys[q]]
        rt.reached()
        return log == want(q)
    else:
        raise ValueError(name)
    if log or ca.reads or cb.reads:
        return False
    rt.assume(i < L)
    q = U_realise(i, L)
    _ = ds[i]
    rt.reached()
    if log != want(q):
        return False
    if name == 'cache':
        _ = ds[i]
        return log == want(q)           # the second access is served from the cache
    return True


# ---- construction of every lazy combinator over every kind of lazy input, accepted or refused ------------------------------------
def _first_stages(A, F, P, rng):
    return {
        'map': lambda: A.map(F.f(1, P[0])),
        'filter': lambda: A.filter(F.p(1, P[0])),
        'map_filter': lambda: A.map(F.f(1, P[0])).filter(F.p(3, P[2])),
        'apply_lazy': lambda: A.map(F.f(1, P[0])).apply(F.a(3), lazy=True),
        'apply_lazy_sort': lambda: A.map(F.f(1, P[0])).apply(F.a(3, lambda d: d.sort(F.f(4, 0))), lazy=True),
        'unbatch': lambda: A.map(F.f(1, P[0])).batch(2).unbatch(),
        'reshuffle': lambda: A.map(F.f(1, P[0])).shuffle(True, rng=rng),
        'local': lambda: A.map(F.f(1, P[0])).shuffle(True, rng=rng, buffer_size=2),
        'catch': lambda: A.map(F.f(1, P[0])).catch(),
        'pf1': lambda: A.map(F.f(1, P[0])).prefetch(1, 2),
        'cycle': lambda: A.map(F.f(1, P[0])).cycle(),
    }


def _second_stages(D, B, F, P, rng):
    g = F.f(2, P[1])
    return {
        'none': lambda: D,
        'map': lambda: D.map(g),
        'parmap': lambda: D.map(g, num_workers=2, buffer_size=2),
        'batch_map': lambda: D.batch(2).batch_map(g),
        'filter': lambda: D.filter(F.p(2, P[1])),
        'slice': lambda: D[1:],
        'idx': lambda: D[[0]],
        'batch': lambda: D.batch(2),
        'unbatch': lambda: D.unbatch(),
        'cat': lambda: D.concatenate(B.map(g)),
        'isp': lambda: D.intersperse(B.map(g)),
        'zip': lambda: D.zip(B.map(g)),
        'items': lambda: D.items(),
        'tile': lambda: D.tile(2),
        'tile_shuffle': lambda: D.tile(2, shuffle=True),
        'cycle': lambda: D.cycle(),
        'cache': lambda: D.cache(),
        'catch': lambda: D.catch(),
        'copy': lambda: D.copy(),
        'reshuffle': lambda: D.shuffle(True, rng=rng),
        'local': lambda: D.shuffle(True, rng=rng, buffer_size=3),
        'split': lambda: D.split(2)[0],
        'pf1': lambda: D.prefetch(1, 2),
        'pfw': lambda: D.prefetch(2, 4),
        'pfw_cfe': lambda: D.prefetch(2, 2, catch_filter_exception=True),
        'pf_mp': lambda: D.prefetch(1, 2, backend='mp'),
        'apply_lazy': lambda: D.apply(F.a(5), lazy=True),
        'profile': lambda: __import__('lazy_dataset').core.ProfilingDataset(D),
    }


FIRST = ('map', 'filter', 'map_filter', 'apply_lazy', 'apply_lazy_sort', 'unbatch', 'reshuffle', 'local', 'catch', 'pf1', 'cycle')
SECOND = ('none', 'map', 'parmap', 'batch_map', 'filter', 'slice', 'idx', 'batch', 'unbatch', 'cat', 'isp', 'zip', 'items', 'tile', 'tile_shuffle', 'cycle', 'cache', 'catch',
          'copy', 'reshuffle', 'local', 'split', 'pf1', 'pfw', 'pfw_cfe', 'pf_mp', 'apply_lazy', 'profile')


def body_construct(first, second, backing, n, x0, x1, x2, x3, c0, c1, c2):
    """constructing a pipeline from lazy combinators executes no user function (map / filter / apply functions) and reads no example -
    whether the library accepts the composition or refuses it (a refusal must not have evaluated anything on the way either)"""
    log = []
    A, ca, va, _ = _mk(n, [x0, x1, x2, x3], 's', backing)
    B, cb, vb, _ = _mk(2, [x1, x0, x2], 'z', backing)
    F = Fns(log)
    P = [c0, c1, c2]
    rng = rt.Rng(sel=[0] * 9, choices=[0] * 6)
    try:
        D = _first_stages(A, F, P, rng)[first]()
        ds = _second_stages(D, B, F, P, rng)[second]()
    except Exception:   # noqa  - refused compositions are fine; evaluating user code while refusing is not
        ds = None
    rt.reached()
    if log or ca.reads or cb.reads:
        return False
    if ds is not None and first not in ('cycle',) and second not in ('cycle',):
        # the construction must not have *consumed* anything either: what is built still yields (it may refuse at first use)
        try:
            it = iter(ds)
        except Exception:   # noqa
            return True
        return not log and not ca.reads
    return True


def U_realise(i, L):
    k = 0
    while k < L - 1 and k != i:
        k += 1
    return k


XP = [(f'x{i}', 'int') for i in range(4)] + [(f'y{i}', 'int') for i in range(3)]
CP = [('c0', 'int'), ('c1', 'int'), ('c2', 'int')]


def _pconds(tier, seed):
    out = []
    nmax = 3 if tier == 'quick' else 4
    for name in TEMPLATES:
        for n in range(0, nmax + 1):
            top = n + 2 if name in ('concat', 'isp') else n
            if name == 'isp' and n == 0:
                continue
            for k in range(0, top + 2):
                out.append((name, n, k))
    return out


FAMILIES = [
    Family('prefix', body_prefix, ['name', 'n', 'k'], XP + CP + [('a', 'int'), ('b', 'int')], _pconds, timeout=dict(quick=60, thorough=300),
           desc='construction runs nothing; first k results: user-function log equals the plain-generator program'),
    Family('construct', body_construct, ['first', 'second', 'backing', 'n'], XP[:4] + CP,
           lambda tier, seed: [(a, b, bk, n) for a in FIRST for b in SECOND for bk in ('list', 'dict') for n in ((2,) if tier == 'quick' else (0, 1, 3))
                               if not (bk == 'dict' and tier == 'quick' and b not in ('items', 'cat', 'isp', 'pfw', 'cache', 'catch'))], timeout=60,
           desc='constructing any two-stage composition of lazy combinators (accepted or refused by the library) runs no user function and reads no example'),
    Family('second_pass', body_second_pass, ['n'], XP[:4] + CP[:2], lambda tier, seed: [(n,) for n in range(0, 4)], timeout=60, desc='cache: nothing upstream runs twice'),
    Family('pointwise', body_pointwise, ['name', 'n', 'j'], XP + CP + [('i', 'int')],
           lambda tier, seed: [(nm, n, j) for nm in ('map', 'batch', 'concat', 'slice', 'zip', 'cache', 'key_map', 'key_concat', 'key_kzip') for n in range(0, 4)
                               for j in ((0, 1, 2) if nm.startswith('key_') else (0,)) if not (n == 0 and nm in ('map', 'batch', 'slice', 'zip', 'cache'))], timeout=60,
           desc='ds[i] / ds[key] applies user functions only to the examples of that result'),
]
