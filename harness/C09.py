"""C09 - examples handed out are isolated from the stored data (E1 CrossHair as exhaustive driver over selector histories; real pickle / deepcopy / numpy / diskcache)."""
import copy
import os
import shutil

import lazy_dataset
from lazy_dataset.core import DictDataset, ListDataset

from engine import rt
from engine.xh import Family

rt.quiet_logging()

META = dict(
    engine='E1 CrossHair 0.0.110 as an exhaustive driver: the symbolic variables are discrete selectors of an access/mutation history; each path realises them and runs the real code '
           '(real pickle, deepcopy, NumpySerializedList, diskcache) untraced',
    functions=['lazy_dataset.core._get_serialize_and_deserialize', 'from_dict/from_list/new', 'NumpySerializedList', '_CacheWrapper', 'CacheDataset.__getitem__', 'DiskCacheDataset/_DiskCacheWrapper',
               'MapDataset/SliceDataset/ItemsDataset access paths'],
    stubs=[],
    assumptions=['honest note: there is no arithmetic here; the solver contributes exhaustiveness over the selector space (equivalent to bounded-exhaustive enumeration), decided path by path',
                 'payloads are nested dict/list/int values with a 4800-byte and a 64-byte numpy array, either bare (shape dict) or wrapped in a tuple (id, payload) (shape tuple); two examples per dataset'],
    bounds=dict(quick='9 storage kinds x histories of 1 step (all access paths x mutations x targets) and 2 steps (first step structural, sampled 1 in 3)', thorough='all 2-step histories'),
    outside=['histories longer than 2 steps', 'payload types other than dict/list/tuple/int/numpy arrays'],
)

SOURCES = ['new_dict_pickle', 'new_list_pickle', 'new_dict_copy', 'new_list_copy', 'list_wu', 'cache_over_new', 'cache_over_raw', 'diskcache_over_new', 'eager_cache', 'diskcache_over_raw']
# sources that meet examples which cannot be serialised (shape 'unpicklable'): a loud refusal is fine, handing out the stored object is not
UNPICKLABLE_SOURCES = ['new_dict_pickle', 'new_dict_copy', 'new_list_copy', 'list_wu', 'cache_over_raw', 'diskcache_over_raw', 'eager_cache']
ACCESS = ['idx', 'neg', 'key', 'slice', 'iter', 'items', 'copy', 'kept_slice', 'kept_rev', 'kept_copy']
KEPT = {}        # derived datasets that are created once per history and accessed again and again (a slice, a reversed view, a copy)
MUTATE = ['setkey', 'append', 'nested', 'delete', 'clear', 'orig', 'arr_big', 'arr_small', 'arr_slice']
N = 2
_COUNTER = [0]


SHAPES = ['dict', 'tuple']


def _payload(shape='dict'):
    """shape 'dict': every example is a nested dict; shape 'tuple': every example is a tuple (id, nested dict) - an immutable container
    around mutable data, which a "nothing to protect" shortcut keyed on the top-level type would hand out unprotected"""
    d = _payload_dict()
    if shape == 'unpicklable':
        for v in d.values():
            v['f'] = lambda: 0          # a member that pickle refuses (deepcopy treats functions as atomic)
        return d
    if shape == 'tuple':
        return {k: (i, v) for i, (k, v) in enumerate(d.items())}
    return d


def _inner(ex):
    return ex[1] if isinstance(ex, tuple) else ex


def _payload_dict():
    import numpy as np
    # 'w': 4800 bytes (above the 4 KiB out-of-band thresholds of pickle protocol 5), 'u': 64 bytes
    return {'k0': {'a': [1, {'b': 2}], 'c': 3, 'w': np.arange(600, dtype=np.float64), 'u': np.arange(8, dtype=np.float64)},
            'k1': {'a': [4, {'b': 5}], 'c': 6, 'w': np.arange(600, dtype=np.float64) + 1000, 'u': np.arange(8, dtype=np.float64) + 10}}


def _eq(a, b):
    """structural equality that understands numpy arrays"""
    import numpy as np
    if isinstance(a, np.ndarray) or isinstance(b, np.ndarray):
        return isinstance(a, np.ndarray) and isinstance(b, np.ndarray) and a.shape == b.shape and bool((a == b).all())
    if isinstance(a, dict):
        return isinstance(b, dict) and list(a.keys()) == list(b.keys()) and all(_eq(a[k], b[k]) for k in a)
    if isinstance(a, (list, tuple)):
        return type(a) is type(b) and len(a) == len(b) and all(_eq(x, y) for x, y in zip(a, b))
    return a == b


def _untraced():
    if rt.SYMBOLIC:
        from crosshair.tracers import NoTracing
        return NoTracing()
    import contextlib
    return contextlib.nullcontext()


def _build(source, payload, scratch):
    keyed = True
    if source == 'new_dict_pickle':
        ds = lazy_dataset.new(payload)
    elif source == 'new_list_pickle':
        ds, keyed = lazy_dataset.new(list(payload.values())), False
    elif source == 'new_dict_copy':
        ds = lazy_dataset.new(payload, immutable_warranty='copy')
    elif source == 'new_list_copy':
        ds, keyed = lazy_dataset.new(list(payload.values()), immutable_warranty='copy'), False
    elif source == 'list_wu':
        ds, keyed = lazy_dataset.from_list(list(payload.values()), immutable_warranty='wu'), False
    elif source == 'cache_over_new':
        ds = lazy_dataset.new(payload).cache()
    elif source == 'cache_over_raw':
        ds = DictDataset(payload).cache()
    elif source == 'diskcache_over_new':
        ds = lazy_dataset.new(payload).diskcache(cache_dir=scratch, reuse=False, clear=True)
    elif source == 'eager_cache':
        ds = DictDataset(payload).cache(lazy=False)
    elif source == 'diskcache_over_raw':
        ds = DictDataset(payload).diskcache(cache_dir=scratch, reuse=False, clear=True)
    else:
        raise ValueError(source)
    return ds, keyed


def _access(ds, acc, t, keyed):
    if acc == 'idx':
        return ds[t]
    if acc == 'neg':
        return ds[t - N]
    if acc == 'key':
        return ds[f'k{t}'] if keyed else ds[t]
    if acc == 'slice':
        return ds[t:][0]
    if acc == 'iter':
        return list(ds)[t]
    if acc == 'items':
        return dict(list(ds.items()))[f'k{t}'] if keyed else list(ds)[t]
    if acc == 'copy':
        return ds.copy()[t]
    if acc.startswith('kept_'):
        views = KEPT.setdefault(id(ds), {})
        if acc not in views:
            views[acc] = ds[0:N] if acc == 'kept_slice' else (ds[::-1] if acc == 'kept_rev' else ds.copy())
        return views[acc][N - 1 - t] if acc == 'kept_rev' else views[acc][t]
    raise ValueError(acc)


def _mutate(ex, mut, payload, t, source):
    ex = _inner(ex)
    if mut == 'setkey':
        ex['new'] = 1
    elif mut == 'append':
        ex['a'].append(9)
    elif mut == 'nested':
        ex['a'][1]['b'] = 7
    elif mut == 'delete':
        del ex['c']
    elif mut == 'clear':
        ex.clear()
    elif mut == 'arr_big':
        ex['w'] *= 0
    elif mut == 'arr_small':
        ex['u'] += 5
    elif mut == 'arr_slice':
        ex['w'][3:7] = -1
        ex['u'][0] = -1
    elif mut == 'orig':
        # mutate the original container after construction: no effect for the serialising modes (pickle, wu, caches over them)
        if source in ('new_dict_pickle', 'new_list_pickle', 'list_wu', 'cache_over_new', 'diskcache_over_new', 'eager_cache'):
            orig = _inner(payload[f'k{t}'])
            orig['c'] = 99
            orig['a'].append(0)
            orig['w'][:] = -7
        else:
            ex['a'][0] = -5


def _check_all(ds, keyed, pristine):
    want = list(pristine.values())
    for acc in ACCESS:
        for t in range(N):
            if not _eq(_access(ds, acc, t, keyed), want[t]):
                return False
    return True


def _run(source, steps, shape='dict'):
    import warnings
    warnings.simplefilter('ignore')
    payload = _payload(shape)
    pristine = copy.deepcopy(payload)
    _COUNTER[0] += 1
    scratch = os.path.join(os.environ.get('VERIF_WORK') or '/var/tmp', f'c09_{os.getpid()}_{_COUNTER[0]}')
    try:
        ds, keyed = _build(source, payload, scratch)
        if source in ('cache_over_raw', 'diskcache_over_raw'):
            # a raw (non-immutable) upstream: warm the cache first, the claim is about what the cache hands out afterwards
            for t in range(N):
                ds[t]
        for acc, mut, t in steps:
            ex = _access(ds, acc, t, keyed)
            _mutate(ex, mut, payload, t, source)
            if not _check_all(ds, keyed, pristine):
                return False
        return True
    except Exception:   # noqa
        if shape == 'unpicklable':
            return True         # examples that cannot be serialised are refused loudly: nothing was handed out that could be mutated
        raise
    finally:
        KEPT.clear()
        ds = None
        import gc
        gc.collect()
        shutil.rmtree(scratch, ignore_errors=True)


def _pick(sel, n):
    k = 0
    while k < n - 1 and k != sel:
        k += 1
    return k


def body_iso1(source, shape, a, m, t):
    for v, hi in ((a, len(ACCESS)), (m, len(MUTATE)), (t, N)):
        rt.assume(0 <= v)
        rt.assume(v < hi)
    step = (ACCESS[_pick(a, len(ACCESS))], MUTATE[_pick(m, len(MUTATE))], _pick(t, N))
    with _untraced():
        ok = _run(source, [step], shape)
    rt.reached()
    return ok


def body_iso2(source, shape, acc1, mut1, t1, a, m, t):
    for v, hi in ((a, len(ACCESS)), (m, len(MUTATE)), (t, N)):
        rt.assume(0 <= v)
        rt.assume(v < hi)
    step2 = (ACCESS[_pick(a, len(ACCESS))], MUTATE[_pick(m, len(MUTATE))], _pick(t, N))
    with _untraced():
        ok = _run(source, [(acc1, mut1, t1), step2], shape)
    rt.reached()
    return ok


def _c2(tier, seed):
    out = []
    k = 0
    for s in SOURCES:
        for a in ACCESS:
            for m in MUTATE:
                for t in range(N):
                    k += 1
                    if tier == 'quick':
                        if (k + seed) % 3 != 0:
                            continue
                        out.append((s, SHAPES[(k // 3) % 2], a, m, t))        # quick: the two example shapes alternate over the sampled first steps
                    else:
                        out += [(s, sh, a, m, t) for sh in SHAPES]
    return out


FAMILIES = [
    Family('iso1', body_iso1, ['source', 'shape'], [('a', 'int'), ('m', 'int'), ('t', 'int')], lambda tier, seed: [(s, sh) for s in SOURCES for sh in SHAPES] + [(s, 'unpicklable') for s in UNPICKLABLE_SOURCES], timeout=dict(quick=120, thorough=300),
           desc='one access + in-place mutation, then every access path must return the pristine snapshot'),
    Family('iso2', body_iso2, ['source', 'shape', 'acc1', 'mut1', 't1'], [('a', 'int'), ('m', 'int'), ('t', 'int')], _c2, timeout=dict(quick=120, thorough=300),
           desc='two-step histories'),
]
