"""C10 - memory cache is transparent, computes each example once, and freezes it (E1 CrossHair)."""
import itertools
import numbers
import sys
import types

from lazy_dataset.core import Dataset, CacheDataset

from engine import rt
from engine.xh import Family

rt.quiet_logging()
rt.install_shims()

META = dict(
    engine='E1 CrossHair 0.0.110',
    functions=['lazy_dataset.core.CacheDataset.__getitem__/__iter__/check/copy/__len__/keys', 'lazy_dataset.core._CacheWrapper', 'lazy_dataset.core.Dataset.cache',
               'lazy_dataset.core.from_dataset', 'lazy_dataset.core.SliceDataset.__getitem__ (slice-then-index path)'],
    stubs=['psutil.virtual_memory -> input carrier: one solver-chosen `available` reading per call', 'pickle -> pickle_shim',
           'upstream pipeline -> Fresh: returns a fresh solver-chosen value on every call (pairwise distinct, so a returned value identifies the call that produced it) and logs which example was computed'],
    assumptions=['histories are sequences of accesses from a finite alphabet (index of either sign, key, slice-then-index, full iteration, through copy(), through copy(freeze=True) = the '
                 'thread-prefetch path); the history is structural, the values / memory readings / threshold are symbolic',
                 'real concurrent access to the cache dict is outside (threads are not modelled here)'],
    bounds=dict(quick='n = 2 examples, histories of length <= 3 over 13 access kinds; n = 3: an iterator in flight interleaved with every other access kind', thorough='n = 3, histories of length <= 3; n = 2, length 4'),
    outside=['histories longer than the bound', 'concurrent access'],
)

NV = 12


class Fresh(Dataset):
    def __init__(self, n, values, log):
        self.n, self.values, self.log = n, values, log

    indexable = True
    ordered = True

    def copy(self, freeze=False):
        return self

    def __len__(self):
        return self.n

    def keys(self):
        return tuple(rt.KEYS[:self.n])

    def __getitem__(self, item):
        if isinstance(item, str):
            item = rt.KEYS.index(item)
        if isinstance(item, numbers.Integral):
            if item < -self.n or item >= self.n:
                raise IndexError('upstream index out of range')
            if item < 0:
                item = item + self.n
            rt.assume(len(self.log) < len(self.values))
            v = self.values[len(self.log)]
            self.log.append(item)
            return v
        return super().__getitem__(item)

    def __iter__(self, with_key=False):
        for i in range(self.n):
            if with_key:
                yield rt.KEYS[i], self[i]
            else:
                yield self[i]


class _Mem:
    def __init__(self, readings):
        self.readings = list(readings)
        self.calls = 0

    def virtual_memory(self):
        rt.assume(self.calls < len(self.readings))
        r = self.readings[self.calls]
        self.calls += 1
        return types.SimpleNamespace(available=r, total=1 << 40)


ACCESS = ['i0', 'i1', 'ilast', 'neg1', 'negn', 'k0', 'k1', 'sl', 'iter', 'copy_i0', 'fcopy_i1', 'fcopy_neg1', 'items', 'it_next', 'it_rest']


def _do_access(cache, kind, n, state=None):
    """-> list of (example index, returned value)"""
    if kind in ('it_next', 'it_rest'):
        # one iterator of the cache that stays in flight across other accesses: (iterator, number of examples taken)
        if state.get('it') is None:
            state['it'] = iter(cache)
            state['pos'] = 0
        out = []
        while True:
            try:
                v = next(state['it'])
            except StopIteration:
                state['it'] = None
                break
            out.append((state['pos'], v))
            state['pos'] += 1
            if kind == 'it_next':
                break
        return out
    if kind == 'i0':
        return [(0, cache[0])]
    if kind == 'i1':
        return [(1, cache[1])]
    if kind == 'ilast':
        return [(n - 1, cache[n - 1])]
    if kind == 'neg1':
        return [(n - 1, cache[-1])]
    if kind == 'negn':
        return [(0, cache[-n])]
    if kind == 'k0':
        return [(0, cache[rt.KEYS[0]])]
    if kind == 'k1':
        return [(1, cache[rt.KEYS[1]])]
    if kind == 'sl':
        return [(1, cache[1:][0])]
    if kind == 'iter':
        return list(enumerate(list(cache)))
    if kind == 'items':
        out = []
        for j, (k, v) in enumerate(cache.items()):
            if k != rt.KEYS[j]:
                raise AssertionError('misaligned key')
            out.append((j, v))
        return out
    if kind == 'copy_i0':
        return [(0, cache.copy()[0])]
    if kind == 'fcopy_i1':
        return [(1, cache.copy(freeze=True)[1])]
    if kind == 'fcopy_neg1':
        return [(n - 1, cache.copy(freeze=True)[-1])]
    raise ValueError(kind)


def body_history(n, hist, thr, *args):
    vals, reads, nc = list(args[:NV]), list(args[NV:2 * NV]), args[2 * NV]
    for a in range(NV):
        for b in range(a + 1, NV):
            rt.assume(vals[a] != vals[b])
    rt.assume(thr >= 1)
    # the value the upstream produces on its nc-th call is None (nc outside 0..NV-1: no such call): a pipeline value like any other,
    # which a cache must store and serve instead of mistaking it for "not cached"
    rt.assume(-1 <= nc)
    rt.assume(nc <= 5)
    for j in range(NV):
        if j == nc:
            vals[j] = None
    log = []
    mem = _Mem(reads)
    saved = sys.modules.get('psutil')
    sys.modules['psutil'] = mem
    try:
        up = Fresh(n, vals, log)
        cache = CacheDataset(up, keep_mem_free=thr)
        first = {}          # example -> first computed value
        frozen = {}         # example -> value that must be returned from now on (cached while memory permitted)
        state = {}
        for kind in hist:
            calls_before = len(log)
            reads_before = mem.calls
            res = _do_access(cache, kind, n, state)
            for e, v in res:
                produced = [vals[j] for j in range(len(log)) if log[j] == e]
                if not any(v == p for p in produced):
                    return False                      # P1: every returned value is one the pipeline produced for that example
                if e in frozen and v != frozen[e]:
                    return False                      # cached examples stay frozen
            # bookkeeping with the documented latch semantics
            latched_before = any(reads[j] <= thr for j in range(reads_before))
            for j in range(calls_before, len(log)):
                e = log[j]
                if e not in first:
                    first[e] = vals[j]
            latched_now = any(reads[j] <= thr for j in range(mem.calls))
            if not latched_now:
                # memory permits: everything computed so far is cached -> at most one upstream call per example
                for e in range(n):
                    cnt = 0
                    for j in range(len(log)):
                        if log[j] == e:
                            cnt += 1
                    if cnt > 1:
                        return False
                for e in first:
                    frozen[e] = first[e]
            if latched_before:
                # after the latch nothing new is cached: examples that are not frozen are recomputed on every access
                for e, v in res:
                    if e not in frozen:
                        pass
        rt.reached()
        return True
    finally:
        if saved is not None:
            sys.modules['psutil'] = saved
        else:
            sys.modules.pop('psutil', None)


def body_after_latch(n, thr, *args):
    """once a reading is <= threshold no further example is cached (every access recomputes), earlier entries stay"""
    vals, reads = list(args[:NV]), list(args[NV:])
    for a in range(NV):
        for b in range(a + 1, NV):
            rt.assume(vals[a] != vals[b])
    rt.assume(thr >= 1)
    rt.assume(reads[0] > thr)
    rt.assume(reads[1] <= thr)
    log = []
    mem = _Mem(reads)
    saved = sys.modules.get('psutil')
    sys.modules['psutil'] = mem
    try:
        cache = CacheDataset(Fresh(n, vals, log), keep_mem_free=thr)
        a0 = cache[0]            # cached (reading 0 above threshold)
        b0 = cache[1]            # latch: not cached
        b1 = cache[1]            # recomputed
        a1 = cache[0]            # still frozen
        later = cache[n - 1]
        rt.reached()
        return a0 == vals[0] and a1 == a0 and b0 == vals[1] and b1 == vals[2] and log[:3] == [0, 1, 1] and mem.calls == 2 and (later == a0 if n == 1 else True)
    finally:
        if saved is not None:
            sys.modules['psutil'] = saved
        else:
            sys.modules.pop('psutil', None)


def body_eager(n, *vals):
    """cache(lazy=False) snapshots content and order at call time"""
    vals = list(vals)
    for a in range(NV):
        for b in range(a + 1, NV):
            rt.assume(vals[a] != vals[b])
    log = []
    up = Fresh(n, vals, log)
    snap = up.cache(lazy=False)
    want = [vals[j] for j in range(n)]
    a = list(snap)
    _ = list(up)                 # upstream moves on
    b = list(snap)
    rt.reached()
    if a != want or b != want or len(snap) != n:
        return False
    if list(snap.keys()) != list(rt.KEYS[:n]):
        return False
    return all(snap[j] == want[j] for j in range(n)) and len(log) == 2 * n


def _hist_conds(tier, seed):
    out = []
    if tier == 'quick':
        alpha = [a for a in ACCESS if a not in ('ilast', 'fcopy_neg1')]
        for L in (1, 2):
            for h in itertools.product(ACCESS, repeat=L):
                out.append((2, h))
        core_ = ['i1', 'neg1', 'k1', 'sl', 'iter', 'copy_i0', 'fcopy_i1', 'negn']
        for h in itertools.product(core_, repeat=3):
            out.append((2, h))
        # an iterator in flight, interleaved with other accesses (n = 3 so that the iterator is still part-way through)
        for mid in ('i1', 'ilast', 'neg1', 'k1', 'sl', 'copy_i0', 'fcopy_i1', 'iter', 'it_next'):
            out.append((3, ('it_next', mid, 'it_rest')))
            out.append((3, ('it_next', mid, 'it_rest', 'iter')))
    else:
        for L in (1, 2, 3):
            for h in itertools.product(ACCESS, repeat=L):
                out.append((3, h))
        core_ = ['i1', 'neg1', 'k1', 'sl', 'iter', 'fcopy_i1']
        for h in itertools.product(core_, repeat=4):
            out.append((2, h))
    return out


VP = [(f'v{i}', 'int') for i in range(NV)]
MP = [(f'm{i}', 'int') for i in range(NV)]
FAMILIES = [
    Family('history', body_history, ['n', 'hist'], [('thr', 'int')] + VP + MP + [('nc', 'int')], _hist_conds, timeout=dict(quick=60, thorough=300),
           desc='access histories: returned values are pipeline values, frozen once cached, at most one upstream call per example while memory permits'),
    Family('after_latch', body_after_latch, ['n'], [('thr', 'int')] + VP + MP, lambda tier, seed: [(2,), (3,)], timeout=60,
           desc='after the threshold is crossed nothing new is cached, earlier entries stay frozen'),
    Family('eager', body_eager, ['n'], VP, lambda tier, seed: [(n,) for n in range(0, 4)], timeout=60, desc='cache(lazy=False) snapshots content and order'),
]
