"""C11 - disk cache is reused exactly and cleared exactly when asked (E1 CrossHair as exhaustive driver over lifecycle selectors; real diskcache package in scratch directories)."""
import gc
import os
import shutil
import subprocess
import sys

import lazy_dataset
from lazy_dataset.core import DictDataset

from engine import rt
from engine.xh import Family

rt.quiet_logging()

META = dict(
    engine='E1 CrossHair 0.0.110 as an exhaustive driver over lifecycle selectors (which examples are accessed, reuse/clear flags, release order, kill point); each path realises them and '
           'runs the real DiskCacheDataset on the real diskcache package untraced',
    functions=['lazy_dataset.core._DiskCacheWrapper.__init__/__del__', 'DiskCacheDataset.__init__/copy/check', 'CacheDataset.__getitem__/__iter__ (inherited)', 'Dataset.diskcache'],
    stubs=[],
    assumptions=['honest note: the symbolic variables are discrete selectors; the solver contributes exhaustiveness, not arithmetic',
                 'the free-space guard (shutil.disk_usage) stays silent: the scratch file system has more than 5 GiB free (checked at start, otherwise the check reports a harness error)',
                 'kill points are "after the k-th store" of a child process that ends with os._exit (no destructors run); a kill *inside* a store or at a random instant depends on SQLite '
                 'transaction atomicity, which is not encoded (not applicable part)'],
    bounds=dict(quick='n = 3 examples; all access subsets, all reuse/clear combinations, both release orders, every fill order (also by negative index), kill after k = 0..3 stores', thorough='same, plus 2-access histories with negative indices'),
    outside=['kill inside a store / at random instants', 'concurrent writers'],
)

N = 3
_COUNTER = [0]


def _untraced():
    if rt.SYMBOLIC:
        from crosshair.tracers import NoTracing
        return NoTracing()
    import contextlib
    return contextlib.nullcontext()


def _scratch():
    _COUNTER[0] += 1
    d = os.path.join(os.environ.get('VERIF_WORK') or '/var/tmp', f'c11_{os.getpid()}_{_COUNTER[0]}')
    shutil.rmtree(d, ignore_errors=True)
    return d


class Upstream:
    def __init__(self):
        self.calls = [0] * N

    def __call__(self, ex):
        self.calls[ex['i']] += 1
        return _want(ex['i'])


def _pipeline(up):
    return DictDataset({f'k{i}': {'i': i} for i in range(N)}).map(up)


NONE_AT = 1        # the pipeline value of this example is None: a value like any other, which the cache has to store and serve


def _want(i):
    return None if i == NONE_AT else {'i': i, 'v': i * 10 + 7}


def _release(*names_in_ns):
    gc.collect()


def run_reopen(acc, reuse2, clear1, clear2):
    """open -> access subset -> release -> reopen(reuse2, clear2) -> access all -> release"""
    import warnings
    warnings.simplefilter('ignore')
    d = _scratch()
    try:
        up = Upstream()
        ds = _pipeline(up).diskcache(cache_dir=d, reuse=False, clear=clear1)
        for i in range(N):
            if acc[i]:
                if ds[i] != _want(i) or ds[i] != _want(i):
                    return False
        if [up.calls[i] for i in range(N)] != [1 if acc[i] else 0 for i in range(N)]:
            return False
        del ds
        gc.collect()
        if os.path.isdir(d) == clear1:
            return False                      # removed iff clear=True once the last sharer is released
        up2 = Upstream()
        refused = False
        before = sorted(os.listdir(d)) if os.path.isdir(d) else None
        try:
            ds2 = _pipeline(up2).diskcache(cache_dir=d, reuse=reuse2, clear=clear2)
        except RuntimeError:
            refused = True                    # a non-empty directory with reuse=False is refused
        if refused:
            gc.collect()                      # the half-constructed wrapper is released now
            if reuse2 or before is None or len(before) == 0:
                return False                  # ... and only then
            if not os.path.isdir(d) or sorted(os.listdir(d)) != before:
                return False                  # a refused open must not touch the directory
            up3 = Upstream()
            ds3 = _pipeline(up3).diskcache(cache_dir=d, reuse=True, clear=True)
            if list(ds3) != [_want(i) for i in range(N)]:
                return False
            if up3.calls != [0 if acc[i] else 1 for i in range(N)]:
                return False                  # what was stored before the refused open is still served without recomputation
            del ds3
            gc.collect()
            return not os.path.isdir(d)
        if (not reuse2) and before:
            return False
        got = list(ds2)
        if got != [_want(i) for i in range(N)]:
            return False
        stored = [acc[i] and not clear1 for i in range(N)]
        if up2.calls != [0 if stored[i] else 1 for i in range(N)]:
            return False                      # previously stored examples are served without recomputation
        if list(ds2.keys()) != [f'k{i}' for i in range(N)] or ds2['k1'] != _want(1) or ds2[-1] != _want(N - 1):
            return False
        del ds2
        gc.collect()
        return os.path.isdir(d) != clear2
    finally:
        gc.collect()
        shutil.rmtree(d, ignore_errors=True)


def run_share(clear, order, acc_after):
    """copies share the cache: the directory lives until the last sharer is released"""
    import warnings
    warnings.simplefilter('ignore')
    d = _scratch()
    try:
        up = Upstream()
        ds = _pipeline(up).diskcache(cache_dir=d, reuse=False, clear=clear)
        _ = ds[0]
        cp = ds.copy(freeze=True)
        if order == 0:
            del ds
            gc.collect()
            if not os.path.isdir(d):
                return False
            if cp[0] != _want(0) or cp[acc_after] != _want(acc_after):
                return False
            if up.calls[0] != 1:
                return False
            del cp
        else:
            del cp
            gc.collect()
            if not os.path.isdir(d):
                return False
            if ds[0] != _want(0) or ds[acc_after] != _want(acc_after):
                return False
            if up.calls[0] != 1:
                return False
            del ds
        gc.collect()
        return os.path.isdir(d) != clear
    finally:
        gc.collect()
        shutil.rmtree(d, ignore_errors=True)


PERMS = [list(x) for x in __import__('itertools').permutations(range(N))]


def run_order(perm, neg):
    """the cache is filled by index accesses in an arbitrary order (optionally through negative indices); afterwards iteration, items(), a copy
    and a reopened dataset all serve every example at its own position, without recomputation"""
    import warnings
    warnings.simplefilter('ignore')
    d = _scratch()
    try:
        up = Upstream()
        ds = _pipeline(up).diskcache(cache_dir=d, reuse=False, clear=False)
        for i in perm:
            if ds[i - N if neg else i] != _want(i):
                return False
        want = [_want(i) for i in range(N)]
        if list(ds) != want or list(ds.copy()) != want or [v for _, v in ds.items()] != want or [k for k, _ in ds.items()] != [f'k{i}' for i in range(N)]:
            return False
        if up.calls != [1] * N:
            return False
        del ds
        gc.collect()
        up2 = Upstream()
        ds2 = _pipeline(up2).diskcache(cache_dir=d, reuse=True, clear=True)
        if list(ds2) != want or [ds2[i] for i in range(N)] != want or list(ds2[::-1]) != want[::-1]:
            return False
        if up2.calls != [0] * N:
            return False
        del ds2
        gc.collect()
        return not os.path.isdir(d)
    finally:
        gc.collect()
        shutil.rmtree(d, ignore_errors=True)


CHILD = r'''
import os, sys
sys.path[:0] = [{repo!r}, {verif!r}]
os.environ['VERIF_SYMBOLIC'] = '0'
import harness.C11 as h
up = h.Upstream()
ds = h._pipeline(up).diskcache(cache_dir={d!r}, reuse=False, clear=True)
for i in range({k}):
    ds[i]
os._exit(0)       # killed: no destructor, no close
'''


def run_kill(k):
    import warnings
    warnings.simplefilter('ignore')
    d = _scratch()
    try:
        p = subprocess.run([sys.executable, '-c', CHILD.format(repo=rt.REPO, verif=rt.VERIF, d=d, k=k)], capture_output=True, text=True, timeout=120,
                           env=dict(os.environ, VERIF_SYMBOLIC='0'))
        if p.returncode != 0:
            raise RuntimeError('child failed: ' + p.stderr[-500:])
        if not os.path.isdir(d):
            return False                      # a killed writer must not have cleared the directory
        up = Upstream()
        ds = _pipeline(up).diskcache(cache_dir=d, reuse=True, clear=True)
        if list(ds) != [_want(i) for i in range(N)]:
            return False                      # never a corrupt or misplaced example
        if up.calls != [0] * k + [1] * (N - k):
            return False                      # stored before the kill -> not recomputed
        del ds
        gc.collect()
        return not os.path.isdir(d)
    finally:
        gc.collect()
        shutil.rmtree(d, ignore_errors=True)


def body_reopen(clear1, a0, a1, a2, reuse2, clear2):
    acc = [bool(a0), bool(a1), bool(a2)]
    r2, c2 = bool(reuse2), bool(clear2)
    with _untraced():
        ok = run_reopen(acc, r2, clear1, c2)
    rt.reached()
    return ok


def body_share(clear, order, i):
    rt.assume(0 <= i)
    rt.assume(i < N)
    o = 0 if order else 1
    k = 0
    while k < N - 1 and k != i:
        k += 1
    with _untraced():
        ok = run_share(clear, o, k)
    rt.reached()
    return ok


def body_kill(k):
    rt.assume(0 <= k)
    rt.assume(k <= N)
    kk = 0
    while kk < N and kk != k:
        kk += 1
    with _untraced():
        ok = run_kill(kk)
    rt.reached()
    return ok


def body_order(neg, pid):
    rt.assume(0 <= pid)
    rt.assume(pid < len(PERMS))
    k = 0
    while k < len(PERMS) - 1 and k != pid:
        k += 1
    with _untraced():
        ok = run_order(PERMS[k], neg)
    rt.reached()
    return ok


def validate(tier):
    """environment precondition of the free-space guard"""
    free = shutil.disk_usage(os.environ.get('VERIF_WORK') or '/var/tmp').free
    if free < 5 * 1024 ** 3:
        return 0, [f'scratch file system has only {free >> 20} MiB free: DiskCacheDataset.check() would warn/raise and the property does not cover that']
    return 1, []


FAMILIES = [
    Family('reopen', body_reopen, ['clear1'], [('a0', 'bool'), ('a1', 'bool'), ('a2', 'bool'), ('reuse2', 'bool'), ('clear2', 'bool')], lambda tier, seed: [(False,), (True,)],
           timeout=dict(quick=120, thorough=300), path_timeout=60, desc='open / access subset / release / reopen with every reuse-clear combination'),
    Family('share', body_share, ['clear'], [('order', 'bool'), ('i', 'int')], lambda tier, seed: [(False,), (True,)], timeout=120, path_timeout=60,
           desc='copies share the cache; the directory is removed with the last sharer iff clear'),
    Family('order', body_order, ['neg'], [('pid', 'int')], lambda tier, seed: [(False,), (True,)], timeout=180, path_timeout=90,
           desc='cache filled by index accesses in every order; iteration, items(), copy and a reopened dataset stay aligned'),
    Family('kill', body_kill, [], [('k', 'int')], lambda tier, seed: [()], timeout=180, path_timeout=90, desc='writer killed after its k-th store, then reuse'),
]
