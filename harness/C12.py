"""C12 - every shuffle is a permutation, for every iterator in flight (E1 CrossHair; every rng state = solver-chosen permutations/choices)."""
from lazy_dataset.core import ListDataset, DictDataset

from engine import rt
from engine.xh import Family

rt.quiet_logging()
rt.install_shims()

KF = 'KF-C12-reshuffle-shared-permutation'

META = dict(
    engine='E1 CrossHair 0.0.110',
    functions=['lazy_dataset.core.Dataset.shuffle', 'ReShuffleDataset.permutation/__iter__/copy', 'LocalShuffleDataset.__iter__', 'Dataset.tile(shuffle=True)',
               'Dataset.random_choice', 'SliceDataset (index-array selection)'],
    stubs=['rng -> engine.rt.Rng: every shuffle applies a solver-chosen permutation (selection-vector encoding), every choice(k) returns a solver-chosen index in [0,k), '
           'choice(k, size, replace=False) returns solver-chosen pairwise distinct indices (numpy contract); the global numpy.random.shuffle/choice are rebound to the same carrier',
           'numpy -> np_shim (in-place semantics of shuffle on the shared array preserved)'],
    assumptions=['interleavings of next() calls of two iterators over one dataset object are a solver-chosen bool per step'],
    bounds=dict(quick='n <= 3 (local shuffle with two interleaved iterators: n <= 2; three iterators: n <= 2), buffer_size 1..n+1, 2n / 3n interleaving steps; self-zip / zip3 / self-intersperse n <= 3', thorough='n <= 4 (two / three iterators: n <= 3), buffer_size 1..n+1'),
    outside=['four or more iterators in flight', 'n above the bound', 'self-zip of a per-epoch reshuffle with n >= 2 is the known finding KF-C12 (same history) and is not asked again'],
)

XS = [(f'x{i}', 'int') for i in range(4)]
RS = [(f'r{i}', 'int') for i in range(10)]
SS = [(f's{i}', 'bool') for i in range(8)]


def _is_perm_of(out, n):
    """out is a list of example ids; each of 0..n-1 exactly once"""
    if len(out) != n:
        return False
    for j in range(n):
        c = 0
        for o in out:
            if o == j:
                c += 1
        if c != 1:
            return False
    return True


def body_oneshot(backing, n, *r):
    rng = rt.Rng(sel=list(r))
    src = ListDataset(list(range(n))) if backing == 'list' else DictDataset({rt.KEYS[i]: i for i in range(n)})
    ds = src.shuffle(False, rng=rng)
    a, b = list(ds), list(ds)
    rt.reached()
    if not _is_perm_of(a, n) or a != b or len(ds) != n:
        return False
    if backing == 'dict':
        items = list(ds.items())
        return [v for _, v in items] == a and all(k == rt.KEYS[v] for k, v in items)
    return True


def body_reshuffle2(backing, n, *args):
    """two iterators over one ReShuffleDataset, arbitrary interleaving: each completed iteration is a permutation"""
    r, s = list(args[:10]), list(args[10:])
    rng = rt.Rng(sel=r)
    src = ListDataset(list(range(n))) if backing == 'list' else DictDataset({rt.KEYS[i]: i for i in range(n)})
    ds = src.shuffle(True, rng=rng)
    its = [iter(ds), iter(ds)]
    outs = [[], []]
    for step in range(2 * n):
        w = 0 if s[step] else 1
        o = 1 - w
        rt.assume(len(outs[w]) < n)          # every step is real (see body_three): C(2n, n) schedules instead of 2^(2n) vectors
        if len(outs[w]) == 0 and 0 < len(outs[o]) < n and rt.known(KF):
            # known finding KF: an iterator draws its permutation (first next()) while another iterator of the same
            # object is part-way through (has yielded between 1 and n-1 examples): the shared array is reshuffled in place
            rt.assume(False)
        outs[w].append(next(its[w]))
    rt.reached()
    for out in outs:
        if len(out) == n and not _is_perm_of(out, n):
            return False
    return True


def body_frozen2(path, n, *args):
    """two iterators in flight over stages that freeze a reshuffle per iteration (catch, multi-worker prefetch, explicit frozen copies)"""
    r, s = list(args[:10]), list(args[10:])
    rng = rt.Rng(sel=r)
    src = ListDataset(list(range(n)))
    base = src.shuffle(True, rng=rng)
    if path == 'catch':
        a = b = base.catch()
    elif path == 'prefetch':
        a = b = base.prefetch(2, 2)
    else:
        a, b = base.copy(freeze=True), base.copy(freeze=True)
    its = [iter(a), iter(b)]
    outs = [[], []]
    for step in range(2 * n):
        w = 0 if s[step] else 1
        rt.assume(len(outs[w]) < n)
        outs[w].append(next(its[w]))
    rt.reached()
    for out in outs:
        if len(out) == n and not _is_perm_of(out, n):
            return False
    return True


def body_reshuffle_seq(backing, n, epochs, *r):
    """sequential epochs (no overlap): each is a permutation; reports unordered; len; items keep keys attached"""
    rng = rt.Rng(sel=list(r))
    src = ListDataset(list(range(n))) if backing == 'list' else DictDataset({rt.KEYS[i]: i for i in range(n)})
    ds = src.shuffle(True, rng=rng)
    if ds.ordered or len(ds) != n:
        return False
    for e in range(epochs):
        if backing == 'dict' and e == epochs - 1:
            items = list(ds.items())
            out = [v for _, v in items]
            if not all(k == rt.KEYS[v] for k, v in items):
                return False
        else:
            out = list(ds)
        if not _is_perm_of(out, n):
            return False
    rt.reached()
    return True


def body_local(backing, n, bsz, two, *args):
    """buffer-local shuffle: permutation; no example is emitted more than buffer_size-1 positions before its source position;
    two interleaved iterators do not disturb each other"""
    c, s = list(args[:12]), list(args[12:])
    rng = rt.Rng(sel=c[6:], choices=c[:6])
    src = ListDataset(list(range(n))) if backing == 'list' else DictDataset({rt.KEYS[i]: i for i in range(n)})
    ds = src.shuffle(True, rng=rng, buffer_size=bsz)
    it1, it2 = iter(ds), iter(ds)
    o1, o2 = [], []
    for step in range(2 * n):
        if not two:
            if len(o1) < n:
                o1.append(next(it1))
        elif s[step]:
            rt.assume(len(o1) < n)
            o1.append(next(it1))
        else:
            rt.assume(len(o2) < n)
            o2.append(next(it2))
    rt.reached()
    if not two and len(o1) != n:
        return False
    for out in (o1, o2):
        if len(out) == n:
            if not _is_perm_of(out, n):
                return False
    for out in (o1, o2):
        for p, sidx in enumerate(out):
            if sidx - p > bsz - 1:
                return False
    if len(ds) != n:
        return False
    return True


def body_tile(n, reps, *r):
    rng = rt.Rng(sel=list(r))
    src = ListDataset(list(range(n)))
    with rt.global_rng(rng):
        ds = src.tile(reps, shuffle=True)
        out = list(ds)
    rt.reached()
    if len(out) != n * reps:
        return False
    for j in range(n):
        c = 0
        for o in out:
            if o == j:
                c += 1
        if c != reps:
            return False
    # every tile is itself a permutation
    for t in range(reps):
        if not _is_perm_of(out[t * n:(t + 1) * n], n):
            return False
    return True


def body_choice(n, size, replace, c0, c1, c2):
    rng = rt.Rng(choices=[c0, c1, c2])
    src = ListDataset(list(range(n)))
    if size is None:
        v = src.random_choice(rng_state=rng)
        rt.reached()
        return 0 <= v < n and rng.log == [('choice', None, False)]
    sub = src.random_choice(size, replace=replace, rng_state=rng)
    out = list(sub)
    rt.reached()
    if len(out) != size or rng.log != [('choice', size, replace)]:
        return False
    if not replace:
        for a in range(len(out)):
            for b in range(a + 1, len(out)):
                if out[a] == out[b]:
                    return False
    return all(0 <= v < n for v in out)


def _mk(kind, n, bsz, rng):
    src = ListDataset(list(range(n)))
    if kind == 'reshuffle':
        return src.shuffle(True, rng=rng)
    if kind == 'local':
        return src.shuffle(True, rng=rng, buffer_size=bsz)
    if kind == 'oneshot':
        return src.shuffle(False, rng=rng)
    if kind == 'frozen':
        return src.shuffle(True, rng=rng).copy(freeze=True)
    if kind == 'catch':
        return src.shuffle(True, rng=rng).catch()
    if kind == 'prefetch':
        return src.shuffle(True, rng=rng).prefetch(2, 2)
    raise ValueError(kind)


def body_three(kind, n, bsz, *args):
    """three iterators in flight over one dataset object, arbitrary interleaving of their next() calls (a solver-chosen iterator per step;
    each iterator is created immediately before its first next())"""
    c, w3 = list(args[:21]), list(args[21:])
    rng = rt.Rng(sel=c[9:], choices=c[:9])
    ds = _mk(kind, n, bsz, rng)
    its = [None, None, None]
    outs = [[], [], []]
    started = 0
    for step in range(3 * n):
        w = w3[step]
        # the three iterators are created at their first use, so they are interchangeable until then: without loss of generality
        # they are first used in the order 0, 1, 2 (symmetry reduction by renaming, 6x fewer schedules)
        rt.assume(0 <= w)
        rt.assume(w <= started)
        rt.assume(w < 3)
        w = 0 if w == 0 else (1 if w == 1 else 2)
        # every step advances an unfinished iterator: all 3n steps are real, all iterators complete.  Partial iterations are the
        # prefixes of these schedules, and every assertion below is monotone in the outputs, so nothing is lost
        rt.assume(len(outs[w]) < n)
        if kind == 'reshuffle' and len(outs[w]) == 0 and rt.known(KF):
            for o in range(3):
                if o != w and 0 < len(outs[o]) < n:
                    rt.assume(False)         # known finding KF (see body_reshuffle2)
        if its[w] is None:
            its[w] = iter(ds)
            started += 1
        outs[w].append(next(its[w]))
    rt.reached()
    for out in outs:
        if len(out) == n and not _is_perm_of(out, n):
            return False
        if kind == 'local':
            for p, sidx in enumerate(out):
                if sidx - p > bsz - 1:
                    return False
    return True


def body_selfcomp(kind, comp, n, bsz, *args):
    """a dataset with a random stage combined with itself (zip / intersperse): the combinator keeps several iterators of one object in
    flight; every component stream is a permutation, fixed-order datasets give identical component streams"""
    c = list(args)
    rng = rt.Rng(sel=c[9:], choices=c[:9])
    ds = _mk(kind, n, bsz, rng)
    if comp == 'zip':
        out = list(ds.zip(ds))
        streams = [[t[0] for t in out], [t[1] for t in out]]
    elif comp == 'zip3':
        out = list(ds.zip(ds, ds))
        streams = [[t[0] for t in out], [t[1] for t in out], [t[2] for t in out]]
    else:
        out = list(ds.intersperse(ds))
        if len(out) != 2 * n:
            return False
        # IntersperseDataset(a, a) alternates a, a', a, a', ... for equally long inputs (reference: engine.universe.intersperse_order)
        from engine import universe as U
        order = U.intersperse_order([n, n])
        streams = [[out[i] for i in range(2 * n) if order[i][0] == 0], [out[i] for i in range(2 * n) if order[i][0] == 1]]
    rt.reached()
    for st in streams:
        if not _is_perm_of(st, n):
            return False
        if kind == 'local':
            for p, sidx in enumerate(st):
                if sidx - p > bsz - 1:
                    return False
    if kind in ('oneshot', 'frozen'):
        for st in streams[1:]:
            if st != streams[0]:
                return False
    return True


def _nmax(tier):
    return 3 if tier == 'quick' else 4


FAMILIES = [
    Family('oneshot', body_oneshot, ['backing', 'n'], RS, lambda tier, seed: [(b, n) for b in ('list', 'dict') for n in range(0, _nmax(tier) + 1)],
           timeout=dict(quick=60, thorough=300), desc='shuffle(False, rng): a fixed permutation, keys attached'),
    Family('reshuffle2', body_reshuffle2, ['backing', 'n'], RS + SS, lambda tier, seed: [(b, n) for b in ('list', 'dict') for n in range(1, _nmax(tier) + 1)],
           timeout=dict(quick=300, thorough=900), desc='two iterators in flight over one ReShuffleDataset'),
    Family('frozen2', body_frozen2, ['path', 'n'], RS + SS, lambda tier, seed: [(p, n) for p in ('catch', 'prefetch', 'copies') for n in range(1, _nmax(tier) + 1)],
           timeout=dict(quick=300, thorough=900), desc='two iterators in flight over per-iteration frozen copies of a ReShuffleDataset'),
    Family('reshuffle_seq', body_reshuffle_seq, ['backing', 'n', 'epochs'], RS,
           lambda tier, seed: [(b, n, e) for b in ('list', 'dict') for n in range(0, 4) for e in (1, 2, 3) if n * e <= 9 and (n < 3 or e < 3 or tier != 'quick')],
           timeout=dict(quick=90, thorough=900), desc='consecutive epochs of a ReShuffleDataset'),
    Family('local', body_local, ['backing', 'n', 'bsz', 'two'], [(f'c{i}', 'int') for i in range(12)] + SS,
           lambda tier, seed: [(b, n, k, two) for b in ('list', 'dict') for two in (False, True) for n in range(0, _nmax(tier) + (0 if two else 1)) for k in range(1, n + 2)],
           timeout=dict(quick=90, thorough=900), desc='LocalShuffleDataset: permutation, bounded displacement, two iterators'),
    Family('tile', body_tile, ['n', 'reps'], RS, lambda tier, seed: [(n, r) for n in range(0, 4) for r in (1, 2, 3) if n * r <= (6 if tier == 'quick' else 9)],
           timeout=dict(quick=90, thorough=900), desc='tile(reps, shuffle=True) with the global generator stubbed'),
    Family('choice', body_choice, ['n', 'size', 'replace'], [('c0', 'int'), ('c1', 'int'), ('c2', 'int')],
           lambda tier, seed: [(n, sz, rp) for n in range(1, 5) for sz in (None, 0, 1, 2, 3) for rp in (False, True) if (sz is None and not rp) or (sz is not None and (rp or sz <= n))],
           timeout=60, desc='random_choice: in range, without replacement no example twice, arguments forwarded'),
    Family('three', body_three, ['kind', 'n', 'bsz'], [(f'c{i}', 'int') for i in range(21)] + [(f'w{i}', 'int') for i in range(9)],
           lambda tier, seed: [(k, n, b) for k in ('reshuffle', 'local', 'frozen', 'catch', 'prefetch', 'oneshot') for n in range(1, (3 if tier == 'quick' else 4))
                               for b in ((1, 2, 3)[:n + 1] if k == 'local' else (0,))],
           timeout=dict(quick=300, thorough=1500), desc='three iterators in flight over one dataset object (reshuffle, local shuffle, frozen copies, one-time shuffle)'),
    Family('selfcomp', body_selfcomp, ['kind', 'comp', 'n', 'bsz'], [(f'c{i}', 'int') for i in range(21)],
           lambda tier, seed: [(k, c, n, b) for k in ('local', 'frozen', 'oneshot', 'prefetch') for c in ('zip', 'zip3', 'isp') for n in range((1 if c == 'isp' else 0), _nmax(tier) + (0 if c != 'zip3' else -1))
                               for b in ((1, 2, 3, 4)[:n + 1] if k == 'local' else (0,))],
           timeout=dict(quick=120, thorough=900), desc='self-zip / self-intersperse of a dataset with a random stage: every component stream is a permutation'),
]
