"""C13 - explicit seeds reproduce orders; frozen copies stay frozen; copies are faithful (E1 CrossHair)."""
import numpy as np

import lazy_dataset
from lazy_dataset import core
from lazy_dataset.core import (ListDataset, DictDataset, Dataset, DynamicTimeSeriesBucket)

from engine import rt
from engine.xh import Family

rt.quiet_logging()
rt.install_shims()

META = dict(
    engine='E1 CrossHair 0.0.110',
    functions=['copy(freeze) of ReShuffleDataset, LocalShuffleDataset, ApplyDataset, MapDataset, ParMapDataset, CatchExceptionDataset, PrefetchDataset, SliceDataset, FilterDataset, '
               'ConcatenateDataset, IntersperseDataset, ZipDataset, KeyZipDataset, ItemsDataset, BatchDataset, UnbatchDataset, DynamicBucketDataset, CacheDataset, ProfilingDataset, '
               'DictDataset, ListDataset', 'ReShuffleDataset.permutation/__iter__', 'LocalShuffleDataset.__iter__', 'Dataset.shuffle', 'PrefetchDataset.__iter__ (freeze copy per iteration)',
               'ordered properties'],
    stubs=['rng -> engine.rt.Rng (equally seeded = same solver-chosen permutation/choice sequence)', 'global numpy.random.shuffle/choice -> a second carrier with *different* arbitrary values '
           '(any use of the global generator, or loss of the passed one, makes the twin outputs differ for some model)', 'numpy -> np_shim', 'pickle -> pickle_shim',
           'lazy_parallel_map/single_thread_prefetch -> serial contract'],
    assumptions=['"configuration parameter" = attributes that correspond to constructor parameters, plus rng; lazily filled caches (_keys, _do_cache) are state; a shared _cache/time/hit_count must be the same object',
                 'CycleDataset defines no copy() (it refuses with NotImplementedError) and is not part of the copy family'],
    bounds=dict(quick='n <= 3 (frozen copies: n <= 2), 2 epochs, 6 pipelines with random stages x {plain, copy, prefetch(1,2), prefetch(2,2)}', thorough='n <= 3, 3 epochs'),
    outside=['random stages at depth > 3', 'n above the bound'],
)

NR, NC = 15, 6        # entries of the permutation / choice carriers (a condition that runs out of entries is reported as a harness error)
RA = [(f'r{i}', 'int') for i in range(NR)]
GA = [(f'g{i}', 'int') for i in range(9)]
CA = [(f'c{i}', 'int') for i in range(6)]


def _build(pid, n, backing, rng):
    src = ListDataset(list(range(n))) if backing == 'list' else DictDataset({rt.KEYS[i]: i for i in range(n)})
    if pid == 'reshuffle':
        return src.shuffle(True, rng=rng)
    if pid == 'local':
        return src.shuffle(True, rng=rng, buffer_size=2)
    if pid == 'oneshot':
        return src.shuffle(False, rng=rng)
    if pid == 'reshuffle_map':
        return src.shuffle(True, rng=rng).map(lambda v: v + 10)
    if pid == 'map_local_batch':
        return src.map(lambda v: v + 10).shuffle(True, rng=rng, buffer_size=2).batch(2)
    if pid == 'cat':
        return src.shuffle(True, rng=rng).concatenate(src.map(lambda v: v + 10))
    if pid == 'apply':
        return src.apply(lambda d: d.shuffle(True, rng=rng), lazy=True)
    # a per-epoch reshuffle *below* stages that take or forward frozen copies themselves
    if pid == 'reshuffle_pf2':
        return src.shuffle(True, rng=rng).prefetch(2, 2)
    if pid == 'reshuffle_pf1':
        return src.shuffle(True, rng=rng).prefetch(1, 2)
    if pid == 'reshuffle_catch':
        return src.shuffle(True, rng=rng).map(lambda v: v + 10).catch()
    if pid == 'reshuffle_batch':
        return src.shuffle(True, rng=rng).batch(2)
    if pid == 'reshuffle_filter':
        return src.shuffle(True, rng=rng).filter(lambda v: True)
    raise ValueError(pid)


PIPELINES = ['reshuffle', 'local', 'oneshot', 'reshuffle_map', 'map_local_batch', 'cat', 'apply']
BELOW = ['reshuffle_pf2', 'reshuffle_pf1', 'reshuffle_catch', 'reshuffle_batch', 'reshuffle_filter']


def body_seed(pid, variant, backing, n, epochs, *args):
    """two identically built pipelines with equally seeded generators agree in every epoch, whatever the global generator does"""
    r, c, g = list(args[:NR]), list(args[NR:NR + NC]), list(args[NR + NC:])
    ra, rb = rt.Rng(sel=list(r), choices=list(c)), rt.Rng(sel=list(r), choices=list(c))
    glob_a = rt.Rng(sel=list(g), choices=[0, 0, 0, 0, 0, 0])
    glob_b = rt.Rng(sel=list(reversed(g)), choices=[1, 1, 1, 1, 1, 1])
    with rt.global_rng(glob_a):
        A = _build(pid, n, backing, ra)
        if variant == 'copy':
            A = A.copy()
        elif variant == 'pf1':
            A = A.prefetch(1, 2)
        elif variant == 'pfw':
            if pid in ('local', 'map_local_batch', 'apply'):
                rt.reached()
                return True          # multi-worker prefetch needs an indexable frozen input
            A = A.prefetch(2, 2)
        outs_a = [list(A) for _ in range(epochs)]
    with rt.global_rng(glob_b):
        B = _build(pid, n, backing, rb)
        outs_b = [list(B) for _ in range(epochs)]
    rt.reached()
    return outs_a == outs_b


def body_frozen(pid, backing, n, *args):
    """copy(freeze=True) of a per-epoch reshuffle iterates in one fixed order forever; reshuffling datasets report unordered"""
    r, c = list(args[:NR]), list(args[NR:NR + NC])
    rng = rt.Rng(sel=list(r), choices=list(c))
    ds = _build(pid, n, backing, rng)
    if pid in ('reshuffle', 'local', 'reshuffle_map', 'map_local_batch', 'cat', 'apply') or pid in BELOW:
        if ds.ordered:
            return False
    if pid == 'oneshot':
        if not ds.ordered:
            return False
        fz = ds
    elif pid in ('local', 'map_local_batch'):
        rt.reached()
        return True                  # buffer-local shuffle has no frozen form (copy(freeze=True) stays random by design)
    else:
        fz = ds.copy(freeze=True)
    a = list(fz)
    if pid != 'oneshot':
        _ = list(ds)                        # the original moves on to its next epoch ...
        fz2 = ds.copy(freeze=True)          # ... and is frozen once more
        _ = list(fz2)
    b = list(fz)
    if pid != 'oneshot' and n > 0:
        # a copy of the frozen copy, and stages that copy per iteration, are faithful also after the original moved on
        if list(fz.copy()) != a or list(fz.copy(freeze=True)) != a:
            return False
        if pid in ('reshuffle', 'reshuffle_map') and list(fz.catch()) != a:
            return False
        if pid in BELOW and (list(fz) != a or list(fz) != a):
            return False              # further epochs of the frozen copy
    it = iter(fz)
    first = [next(it)] if len(a) else []
    if pid != 'oneshot':
        _ = list(ds)                        # also while an iteration of the frozen copy is in flight
    c2 = first + list(it)
    rt.reached()
    if not (a == b == c2):
        return False
    if hasattr(fz, 'keys'):
        try:
            ks = list(fz.keys())
        except Exception:   # noqa
            ks = None
        if ks is not None and backing == 'dict' and pid == 'reshuffle':
            if [v for v in a] != [rt.KEYS.index(k) for k in ks]:
                return False
    base = sorted(leafs(a))
    want = sorted(leafs(list(_build(pid, n, backing, rt.Rng(sel=[0] * NR, choices=[0] * NC)))))
    return base == want


def leafs(lst):
    out = []
    for v in lst:
        if isinstance(v, (list, tuple)):
            out += leafs(v)
        else:
            out.append(v)
    return out


# ----------------------------------------------------------------------------- copy() faithful
SKIP_ATTRS = {'_keys', '_do_cache'}
IDENTITY_ATTRS = {'_cache', 'time', 'hit_count'}


def same_config(a, b):
    if type(a) is not type(b):
        return False
    va, vb = vars(a), vars(b)
    for k in va:
        if k in SKIP_ATTRS:
            continue
        if k not in vb:
            return False
        x, y = va[k], vb[k]
        if k in IDENTITY_ATTRS:
            if x is not y:
                return False
        elif isinstance(x, (int, bool)) or x is None:
            # (checked before any hasattr(): attribute lookups on a symbolic int realise it)
            if isinstance(y, Dataset) or x != y:
                return False
        elif isinstance(x, Dataset):
            if not same_config(x, y):
                return False
        elif isinstance(x, (list, tuple)) and len(x) > 0 and isinstance(x[0], Dataset):
            if len(x) != len(y):
                return False
            for p, q in zip(x, y):
                if not same_config(p, q):
                    return False
        elif hasattr(x, 'shuffle') and hasattr(x, 'choice'):
            if x is not y:            # a random generator is configuration: the copy must use the same one
                return False
        elif isinstance(x, (list, tuple)) or type(x).__name__ == 'ndarray':
            if list(x) != list(y):
                return False
        elif callable(x) and not isinstance(x, type):
            if x is not y and not (getattr(x, '__code__', 1) is getattr(y, '__code__', 2)):
                return False
        else:
            if x != y:
                return False
    for k in vb:
        if k not in va and k not in SKIP_ATTRS:
            return False
    return True


def _f(ex):
    return ex


def _stage(kind, p0, p1, flag, rng):
    src = DictDataset({rt.KEYS[i]: i for i in range(3)}, name='nm')
    if kind == 'dict':
        return src
    if kind == 'list':
        return ListDataset([1, 2, 3], name='nm')
    if kind == 'map':
        return src.map(_f)
    if kind == 'parmap':
        rt.assume(p0 >= 1)
        return src.map(_f, num_workers=p0, buffer_size=p1, backend='thread')
    if kind == 'apply':
        return src.apply(_f, lazy=True)
    if kind == 'catch':
        return src.catch((KeyError, ValueError), warn=flag)
    if kind == 'prefetch':
        rt.assume(1 <= p0)
        rt.assume(p0 <= p1)
        return src.prefetch(p0, p1, backend='thread', catch_filter_exception=(KeyError,) if flag else None)
    if kind == 'reshuffle':
        return src.shuffle(True, rng=rng)
    if kind == 'local':
        return src.shuffle(True, rng=rng, buffer_size=p0)
    if kind == 'slice':
        return src[1:]
    if kind == 'idxlist':
        return src[[2, 0]]
    if kind == 'filter':
        return src.filter(_f)
    if kind == 'concat':
        return src.concatenate(ListDataset([7]))
    if kind == 'intersperse':
        return src.intersperse(ListDataset([7, 8]))
    if kind == 'zip':
        return src.zip(ListDataset([7, 8, 9]))
    if kind == 'keyzip':
        return src.key_zip(src.map(_f))
    if kind == 'items':
        return src.items()
    if kind == 'batch':
        return src.batch(p0, drop_last=flag)
    if kind == 'unbatch':
        return src.batch(2).unbatch()
    if kind == 'bucket':
        return src.batch_dynamic_time_series_bucket(batch_size=p0, len_key=_f, max_padding_rate=0.5, max_total_size=p1, expiration=p0, max_buffered_examples=p1,
                                                    drop_incomplete=flag, sort_key=_f, reverse_sort=flag)
    if kind == 'cache':
        return src.cache(keep_mem_free=p0 if p0 > 0 else 1)
    if kind == 'deep':
        return src.shuffle(True, rng=rng, buffer_size=p0).map(_f).batch(p1, drop_last=flag).prefetch(1, 3, catch_filter_exception=flag)
    raise ValueError(kind)


STAGES = ['dict', 'list', 'map', 'parmap', 'apply', 'catch', 'prefetch', 'reshuffle', 'local', 'slice', 'idxlist', 'filter', 'concat', 'intersperse', 'zip',
          'keyzip', 'items', 'batch', 'unbatch', 'bucket', 'cache', 'deep']


def body_copy(kind, flag, p0, p1):
    rng = rt.Rng(sel=[0] * NR, choices=[0] * NC)
    ds = _stage(kind, p0, p1, flag, rng)
    cp = ds.copy()
    rt.reached()
    if cp is ds and kind not in ('dict', 'list'):
        pass
    return same_config(ds, cp)


FAMILIES = [
    Family('seed', body_seed, ['pid', 'variant', 'backing', 'n', 'epochs'], RA + CA + GA,
           lambda tier, seed: [(p, v, b, n, (2 if tier == 'quick' else 3)) for p in PIPELINES for v in ('plain', 'copy', 'pf1', 'pfw') for b in ('list',) for n in (0, 2, 3)
                               if not (p in ('cat', 'local', 'map_local_batch') and n == 3 and tier == 'quick')],
           timeout=dict(quick=90, thorough=900), desc='equally seeded twins agree epoch by epoch, also through copy() and prefetch, independent of the global generator'),
    Family('frozen', body_frozen, ['pid', 'backing', 'n'], RA + CA,
           lambda tier, seed: [(p, b, n) for p in PIPELINES for b in ('list', 'dict') for n in (0, 2, 3) if not (n == 3 and tier == 'quick')
                               and not (b == 'dict' and p not in ('reshuffle', 'oneshot'))]
                              + [(p, 'list', n) for p in BELOW for n in ((2,) if tier == 'quick' else (2, 3))], timeout=dict(quick=90, thorough=600),
           desc='one-time shuffle and copy(freeze=True) iterate in one fixed order; reshuffling datasets report unordered'),
    Family('copy', body_copy, ['kind', 'flag'], [('p0', 'int'), ('p1', 'int')], lambda tier, seed: [(k, f) for k in STAGES for f in (False, True)], timeout=60,
           desc='copy() preserves every configuration parameter of every stage (symbolic numeric parameters)'),
]
