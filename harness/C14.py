"""C14 - exception-based filtering drops exactly the failing examples (E1 CrossHair)."""
from lazy_dataset.core import ListDataset, DictDataset, FilterException

from engine import rt
from engine.xh import Family

rt.quiet_logging()
rt.install_shims()

META = dict(
    engine='E1 CrossHair 0.0.110',
    functions=['lazy_dataset.core.CatchExceptionDataset.__iter__ (value and key loops)', 'lazy_dataset.core.FilterDataset.__iter__/__getitem__',
               'lazy_dataset.core.Dataset.filter(lazy=False)', 'lazy_dataset.core.Dataset.catch', 'MapDataset/SliceDataset/ConcatenateDataset.__getitem__ below the catch'],
    stubs=['numpy -> np_shim'],
    assumptions=['failure plan per position r_i in {ok, listed type, subclass of listed type, foreign type}; caught set: single type / tuple of types / base class',
                 'the raising stage is a map function 1 or 2 stages below the catch, optionally behind a reversing slice, an index list, a concatenation (failing member first / middle / last), a tiling or an intersperse', 'exception families: user classes and subclasses of the builtin types the library catches internally (KeyError, IndexError, TypeError, AttributeError, ValueError, AssertionError, NotImplementedError, RuntimeError, StopIteration)'],
    bounds=dict(quick='n <= 3', thorough='n <= 4'),
    outside=['a *list* of exception types (in the docstring of catch, not in the property quantifier)', 'n above the bound'],
)


class E1(Exception):
    pass


class E1Sub(E1):
    pass


class E2(Exception):
    pass


def body_catch(backing, n, stage, sel, with_key, x0, x1, x2, x3, r0, r1, r2, r3, c):
    xs = rt.mk(n, [x0, x1, x2, x3])
    rs = rt.mk(n, [r0, r1, r2, r3])
    for r in rs:
        rt.assume(0 <= r)
        rt.assume(r <= 3)
    caught = {'single': E1, 'tuple': (E1, KeyError), 'base': E1, 'subonly': E1Sub}[sel]
    keys = rt.KEYS[:n]
    if backing == 'dict':
        src = DictDataset({k: (x, r) for k, x, r in zip(keys, xs, rs)})
    else:
        src = ListDataset([(x, r) for x, r in zip(xs, rs)])

    def f(ex):
        x, r = ex
        if r == 1:
            raise E1(x)
        if r == 2:
            raise E1Sub(x)
        if r == 3:
            raise E2(x)
        return x
    order = list(range(n))
    if stage == 'map':
        ds = src.map(f)
    elif stage == 'map2':
        ds = src.map(f).map(lambda v: v + c)
    elif stage == 'rev':
        ds = src.map(f)[::-1]
        order = order[::-1]
    else:   # 'cat': the failing examples sit in both parts
        ds = src.map(f).concatenate(src.map(f)[::-1]) if backing == 'list' else src.map(f)
        if backing == 'list':
            order = order + order[::-1]
    ds = ds.catch(caught)
    exp, err = [], None
    for i in order:
        x, r = xs[i], rs[i]
        drop = (r in (1, 2)) if sel != 'subonly' else (r == 2)
        if drop:
            continue
        if r != 0:
            err = (r, x)
            break
        v = x + c if stage == 'map2' else x
        exp.append((keys[i], v) if with_key else v)
    got = []
    try:
        it = ds.items() if with_key else ds
        for v in it:
            got.append(v)
    except (E1, E2) as e:
        rt.reached()
        if err is None or got != exp or e.args[0] != err[1]:
            return False
        # (no dict lookup with a symbolic key: CrossHair would hand back a symbolic type object)
        if err[0] == 1:
            return type(e) is E1
        if err[0] == 2:
            return type(e) is E1Sub
        return type(e) is E2
    rt.reached()
    return err is None and got == exp


class K1(KeyError):
    pass


class K1Sub(K1):
    pass


class K2(LookupError):
    pass


def body_catch_lookup(n, sel, split, x0, x1, x2, x3, r0, r1, r2, r3):
    """the raising stage sits below a concatenation of two dict datasets and raises lookup-type exceptions (KeyError family):
    key iteration (items) of the catch goes through string-key lookup of every stage in between"""
    xs = rt.mk(n, [x0, x1, x2, x3])
    rs = rt.mk(n, [r0, r1, r2, r3])
    for r in rs:
        rt.assume(0 <= r)
        rt.assume(r <= 3)
    caught = {'keyerror': KeyError, 'k1': K1, 'k1sub': K1Sub, 'tuple': (K1, ValueError)}[sel]
    keys = rt.KEYS[:n]

    def f(ex):
        x, r = ex
        if r == 1:
            raise K1(x)
        if r == 2:
            raise K1Sub(x)
        if r == 3:
            raise K2(x)
        return x
    left = DictDataset({k: (x, r) for k, x, r in list(zip(keys, xs, rs))[:split]})
    right = DictDataset({k: (x, r) for k, x, r in list(zip(keys, xs, rs))[split:]})
    ds = left.map(f).concatenate(right.map(f).map(lambda v: v)).catch(caught)
    exp, err = [], None
    for i in range(n):
        x, r = xs[i], rs[i]
        if sel == 'keyerror':
            drop = r in (1, 2)
        elif sel == 'k1':
            drop = r in (1, 2)
        elif sel == 'k1sub':
            drop = r == 2
        else:
            drop = r in (1, 2)
        if drop:
            continue
        if r != 0:
            err = (r, x)
            break
        exp.append((keys[i], x))
    got = []
    try:
        for kv in ds.items():
            got.append(kv)
    except (K1, K2) as e:
        rt.reached()
        if err is None or got != exp or e.args[0] != err[1]:
            return False
        if err[0] == 1:
            return type(e) is K1
        if err[0] == 2:
            return type(e) is K1Sub
        return type(e) is K2
    rt.reached()
    if err is not None or got != exp:
        return False
    return [v for _, v in got] == list(ds) if err is None else True


BUILTIN_BASES = dict(KeyError=KeyError, IndexError=IndexError, TypeError=TypeError, AttributeError=AttributeError, ValueError=ValueError,
                     AssertionError=AssertionError, NotImplementedError=NotImplementedError, RuntimeError=RuntimeError, StopIteration=StopIteration)
_BUILTIN_FAMILY = {}


def _family(base):
    """(X1 < base, X1Sub < X1, X2 = sibling of base that is not a subclass of it)"""
    if base not in _BUILTIN_FAMILY:
        b = BUILTIN_BASES[base]
        x1 = type('X1_' + base, (b,), {})
        x1sub = type('X1Sub_' + base, (x1,), {})
        x2 = type('X2_' + base, (b.__mro__[1],), {})
        _BUILTIN_FAMILY[base] = (x1, x1sub, x2)
    return _BUILTIN_FAMILY[base]


def body_catch_builtin(base, struct, backing, sel, n, split, x0, x1, x2, x3, r0, r1, r2, r3):
    """"wherever in the upstream chain the exception originates": the failing stage raises exceptions from the families of the builtin
    exception types that the library itself catches for its own purposes (IndexError for "past this member", KeyError for "not my key",
    TypeError for "no length", ...) and sits below an index-driven structure (concatenation with the failing member first / in the middle,
    tiling, an index list, intersperse).  Value iteration (list backed) and key iteration (dict backed) of catch()."""
    xs = rt.mk(n, [x0, x1, x2, x3])
    rs = rt.mk(n, [r0, r1, r2, r3])
    for r in rs:
        rt.assume(0 <= r)
        rt.assume(r <= 3)
    X1, X1Sub, X2 = _family(base)
    caught = {'x1': X1, 'base': BUILTIN_BASES[base], 'x1sub': X1Sub, 'tuple': (X1, E1)}[sel]
    keys = rt.KEYS[:n]

    def f(ex):
        x, r = ex
        if r == 1:
            raise X1(x)
        if r == 2:
            raise X1Sub(x)
        if r == 3:
            raise X2(x)
        return x
    triples = list(zip(keys, xs, rs))

    def mk(part):
        if backing == 'dict':
            return DictDataset({k: (x, r) for k, x, r in part})
        return ListDataset([(x, r) for k, x, r in part])
    order = list(range(n))
    if struct == 'cat':
        ds = mk(triples[:split]).map(f).concatenate(mk(triples[split:]).map(f))
    elif struct == 'cat3':
        ds = mk(triples[:split]).map(f).concatenate(mk(triples[split:split + 1]).map(f), mk(triples[split + 1:]).map(lambda e: f(e)))
    elif struct == 'tile':
        ds = mk(triples).map(f).tile(2)
        order = order + order
    elif struct == 'idx':
        ds = mk(triples).map(f)[[j for j in range(n - 1, -1, -1)]]
        order = order[::-1]
    elif struct == 'isp':
        ds = mk(triples[:split]).map(f).intersperse(mk(triples[split:]).map(f))
        a, b = split, n - split
        # the library's rule: ascending (i + 1) / len, ties by input position (exact fractions by cross-multiplication)
        pos = [(0, i) for i in range(a)] + [(1, i) for i in range(b)]
        lens = (a, b)
        order = []
        rest = list(pos)
        while rest:
            best = rest[0]
            for cand in rest[1:]:
                if (cand[1] + 1) * lens[best[0]] < (best[1] + 1) * lens[cand[0]]:
                    best = cand
            rest.remove(best)
            order.append(best[1] if best[0] == 0 else split + best[1])
    else:   # 'plain'
        ds = mk(triples).map(f)
    ds = ds.catch(caught)
    with_key = backing == 'dict'
    exp, err = [], None
    for i in order:
        x, r = xs[i], rs[i]
        drop = (r == 2) if sel == 'x1sub' else (r in (1, 2))
        if drop:
            continue
        if r != 0:
            err = (r, x)
            break
        exp.append((keys[i], x) if with_key else x)
    got = []
    try:
        for v in (ds.items() if with_key else ds):
            got.append(v)
    except (X1, X2) as e:
        rt.reached()
        if err is None or got != exp or e.args[0] != err[1]:
            return False
        if err[0] == 1:
            return type(e) is X1
        if err[0] == 2:
            return type(e) is X1Sub
        return type(e) is X2
    rt.reached()
    return err is None and got == exp


def _builtin_conds(tier, seed):
    out = []
    nmax = 3 if tier == 'quick' else 4
    for base in BUILTIN_BASES:
        for struct in ('plain', 'cat', 'cat3', 'tile', 'idx', 'isp'):
            for backing in ('list', 'dict'):
                if backing == 'dict' and struct == 'tile':
                    continue          # duplicate keys
                sels = ('x1', 'base', 'x1sub', 'tuple') if (tier != 'quick' or base in ('IndexError', 'KeyError', 'TypeError')) else ('x1',)
                for sel in sels:
                    if base == 'StopIteration' and sel == 'x1sub':
                        continue      # an uncaught StopIteration subclass leaving a generator is turned into RuntimeError by Python itself (PEP 479)
                    for n in range(1, nmax + 1):
                        if struct in ('cat', 'isp'):
                            splits = [sp for sp in range(0, n + 1) if struct == 'cat' or 0 < sp < n]
                        elif struct == 'cat3':
                            splits = list(range(0, n))
                        else:
                            splits = [0]
                        if tier == 'quick' and sel != 'x1' and n < nmax:
                            continue
                        for sp in splits:
                            out.append((base, struct, backing, sel, n, sp))
    return out


def body_catch_random(kind, backing, n, epochs, x0, x1, x2, x3, r0, r1, r2, r3, *sel):
    """catch() above a per-epoch reshuffle, iterated again and again on the same object: in every epoch exactly the examples that raise a
    listed type are dropped - in that epoch's order, which a twin pipeline without failures and with an equally seeded generator defines.
    Nothing learnt in one epoch (which positions failed) may leak into the next; value and key iteration select the same examples."""
    xs = rt.mk(n, [x0, x1, x2, x3])
    rs = rt.mk(n, [r0, r1, r2, r3])
    for r in rs:
        rt.assume(0 <= r)
        rt.assume(r <= 2)
    keys = rt.KEYS[:n]

    def mk():
        if backing == 'dict':
            return DictDataset({k: (x, r, k) for k, x, r in zip(keys, xs, rs)})
        return ListDataset([(x, r, k) for k, x, r in zip(keys, xs, rs)])

    def f(ex):
        x, r, k = ex
        if r == 1:
            raise E1(x)
        if r == 2:
            raise E2(x)
        return (x, k)
    rng_a, rng_b = rt.Rng(sel=list(sel)), rt.Rng(sel=list(sel))
    if kind == 'reshuffle_map':
        ds = mk().shuffle(True, rng=rng_a).map(f).catch(E1)
        twin = mk().shuffle(True, rng=rng_b)
    elif kind == 'map_reshuffle':
        ds = mk().map(f).shuffle(True, rng=rng_a).catch(E1)
        twin = mk().shuffle(True, rng=rng_b)
    else:   # 'reshuffle_map_map'
        ds = mk().shuffle(True, rng=rng_a).map(f).map(lambda v: v).catch(E1)
        twin = mk().shuffle(True, rng=rng_b)
    with_key = backing == 'dict'
    for _ in range(epochs):
        order = list(twin)
        exp, err = [], None
        for (x, r, k) in order:
            if r == 1:
                continue
            if r == 2:
                err = x
                break
            exp.append((k, (x, k)) if with_key else (x, k))
        got = []
        try:
            for v in (ds.items() if with_key else ds):
                got.append(v)
        except E2 as e:
            if err is None or got != exp or e.args[0] != err:
                return False
            continue
        if err is not None or got != exp:
            return False
    rt.reached()
    return True


def body_filter_equiv(backing, n, x0, x1, x2, x3, t):
    """lazy filter, eager filter and FilterException under catch() select the same examples"""
    xs = rt.mk(n, [x0, x1, x2, x3])
    if backing == 'dict':
        src = DictDataset({rt.KEYS[i]: x for i, x in enumerate(xs)})
    else:
        src = ListDataset(list(xs))
    pred = lambda v: v > t

    def raising(v):
        if not v > t:
            raise FilterException()
        return v
    a = list(src.filter(pred))
    b = list(src.filter(pred, lazy=False))
    cc = list(src.map(raising).catch())
    want = [x for x in xs if x > t]
    rt.reached()
    if not (a == want and b == want and cc == want):
        return False
    if backing == 'dict':
        wk = [(rt.KEYS[i], x) for i, x in enumerate(xs) if x > t]
        if list(src.filter(pred).items()) != wk or list(src.filter(pred, lazy=False).items()) != wk or list(src.map(raising).catch().items()) != wk:
            return False
        # key lookup on the lazily filtered dataset: kept keys return their example, dropped keys raise
        fd = src.filter(pred)
        for i, x in enumerate(xs):
            try:
                v = fd[rt.KEYS[i]]
            except Exception:   # noqa
                if x > t:
                    return False
                continue
            if not (x > t) or v != x:
                return False
    return True


def _conds(tier, seed):
    out = []
    nmax = 3 if tier == 'quick' else 4
    for backing in ('list', 'dict'):
        for n in range(0, nmax + 1):
            for stage in ('map', 'map2', 'rev', 'cat'):
                if stage == 'cat' and (backing == 'dict' or n > 2):
                    continue
                for sel in ('single', 'tuple', 'base', 'subonly'):
                    for wk in ((False, True) if backing == 'dict' else (False,)):
                        out.append((backing, n, stage, sel, wk))
    return out


XR = [(f'x{i}', 'int') for i in range(4)] + [(f'r{i}', 'int') for i in range(4)]
FAMILIES = [
    Family('catch', body_catch, ['backing', 'n', 'stage', 'sel', 'with_key'], XR + [('c', 'int')], _conds, timeout=dict(quick=60, thorough=300),
           desc='catch(E) yields exactly the examples that do not raise a listed type, in order; others propagate unchanged at their position'),
    Family('catch_lookup', body_catch_lookup, ['n', 'sel', 'split'], XR,
           lambda tier, seed: [(n, sel, sp) for n in range(0, (4 if tier == 'quick' else 5)) for sel in ('keyerror', 'k1', 'k1sub', 'tuple') for sp in range(0, n + 1)],
           timeout=dict(quick=60, thorough=300), desc='KeyError-family exceptions below a concatenation, key iteration of catch()'),
    Family('catch_builtin', body_catch_builtin, ['base', 'struct', 'backing', 'sel', 'n', 'split'], XR, _builtin_conds, timeout=dict(quick=90, thorough=300),
           desc='failures from the families of builtin exception types the library catches internally (IndexError, KeyError, TypeError, ...) '
                'below concatenation / tiling / index list / intersperse: exactly the listed ones are dropped, value and key iteration'),
    Family('catch_random', body_catch_random, ['kind', 'backing', 'n', 'epochs'], XR + [(f's{i}', 'int') for i in range(9)],
           lambda tier, seed: [(k, b, n, e) for k in ('reshuffle_map', 'map_reshuffle', 'reshuffle_map_map') for b in ('list', 'dict') for n in (1, 2, 3)
                               for e in (2, 3) if n * e <= (4 if tier == 'quick' else 6)],
           timeout=dict(quick=150, thorough=900), desc='catch() above a per-epoch reshuffle, several epochs on one object: each epoch drops exactly its failing examples, '
           'in the order an equally seeded failure-free twin defines; value and key iteration'),
    Family('filter_equiv', body_filter_equiv, ['backing', 'n'], [(f'x{i}', 'int') for i in range(4)] + [('t', 'int')],
           lambda tier, seed: [(b, n) for b in ('list', 'dict') for n in range(0, (4 if tier == 'quick' else 5))], timeout=dict(quick=60, thorough=300),
           desc='lazy filter == eager filter == FilterException under catch()'),
]
