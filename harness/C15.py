"""C15 - shards partition the dataset (E1 CrossHair; shard count and index are unbounded symbolic ints)."""
from lazy_dataset.core import ListDataset, DictDataset

from engine import rt
from engine.xh import Family

rt.quiet_logging()
rt.install_shims()

META = dict(
    engine='E1 CrossHair 0.0.110',
    functions=['lazy_dataset.core.Dataset.split', 'lazy_dataset.core.Dataset.shard', 'lazy_dataset.core.SliceDataset (index-array selection, keys)'],
    stubs=['numpy -> np_shim (arange, array_split contract; array_split validated against numpy for n <= 12, k <= 13 on every run)'],
    assumptions=['k (sections) is any integer <= n+3 (unbounded below: every k <= 0 is covered; k > n+3 is outside because the error message formats k, which '
                 'would make CrossHair enumerate it); shard index i in [-k-2, k+2)'],
    bounds=dict(quick='n in 0..6, list- and dict-backed; n in {3,4} for datasets that are themselves derived (reversed / stepped / tail slice, index list, concatenation, map)', thorough='n in 0..10; derived n in 1..6'),
    outside=['history across calls through functools.lru_cache (CrossHair bypasses such caches; covered only by the concrete validation run on pinned (k, i) pairs)', 'n above the bound ("exhaustive for N up to a few hundred" is not claimed)'],
)


PREFIXES = {          # the dataset that is sharded is itself derived: (how to derive it, the same on a plain list)
    'none': (lambda d: d, lambda x: x),
    'rev': (lambda d: d[::-1], lambda x: x[::-1]),
    'rev2': (lambda d: d[::-2], lambda x: x[::-2]),
    'tail': (lambda d: d[1:], lambda x: x[1:]),
    'step2': (lambda d: d[::2], lambda x: x[::2]),
    'idx': (lambda d: d[list(range(len(d) - 1, -1, -1))], lambda x: x[::-1]),
    'cat': (lambda d: d[:1].concatenate(d[1:]), lambda x: x),
    'map': (lambda d: d.map(lambda v: v), lambda x: x),
}


def body_split(backing, n0, prefix, k, i):
    vals = list(range(100, 100 + n0))
    if backing == 'dict':
        ds = DictDataset({rt.KEYS[j] if j < len(rt.KEYS) else f'k{j}': v for j, v in enumerate(vals)})
        keys = PREFIXES[prefix][1](list(ds.keys()))
    else:
        ds = ListDataset(vals)
        keys = None
    ds = PREFIXES[prefix][0](ds)
    vals = PREFIXES[prefix][1](vals)
    n = len(vals)
    # the ValueError message of split() formats `sections`, and list indexing realises the shard index:
    # both enumerate a symbolic value, so the ranges above the valid ones are finite (below they are unbounded)
    rt.assume(k <= n + 3)
    rt.assume(i < k + 2)
    rt.assume(-k - 2 <= i)
    try:
        parts = ds.split(k)
    except ValueError:
        rt.reached()
        return k < 1 or k > n
    rt.reached()
    if k < 1 or k > n:
        return False
    if len(parts) != k:
        return False
    flat, fk, sizes = [], [], []
    for p in parts:
        lp = list(p)
        if len(p) != len(lp):
            return False
        sizes.append(len(lp))
        flat += lp
        if keys is not None:
            fk += list(p.keys())
    if flat != vals:                      # disjoint, complete, original relative order
        return False
    if keys is not None and fk != keys:
        return False
    if max(sizes) - min(sizes) > 1:
        return False
    # a second split of the same object gives the same shards (nothing is left behind by the first call)
    again = ds.split(k)
    if len(again) != k or [list(p) for p in again] != [list(p) for p in parts]:
        return False
    # shard(k, i) == split(k)[i], for every integer i
    try:
        sh = ds.shard(k, i)
    except IndexError:
        return not (-k <= i < k)
    if not (-k <= i < k):
        return False
    j = i if i >= 0 else i + k
    want = None
    for idx, p in enumerate(parts):
        if idx == j:
            want = p
    return list(sh) == list(want) and (keys is None or list(sh.keys()) == list(want.keys()))


FAMILIES = [
    Family('split', body_split, ['backing', 'n', 'prefix'], [('k', 'int'), ('i', 'int')],
           lambda tier, seed: [(b, n, 'none') for b in ('list', 'dict') for n in range(0, (7 if tier == 'quick' else 11))]
                              + [(b, n, p) for b in ('list', 'dict') for n in ((3, 4) if tier == 'quick' else (1, 2, 3, 4, 5, 6)) for p in PREFIXES if p != 'none'],
           pinned=lambda sel: [(k, i) for k in range(1, sel[1] + 1) for i in (-1, 0, k - 1, -k)][:16],
           timeout=dict(quick=90, thorough=600), desc='split(k) partitions in order with sizes differing by <= 1; shard(k,i) == split(k)[i]; invalid k rejected'),
]
