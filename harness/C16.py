"""C16 - combinators obey their algebraic laws (E1 CrossHair: twin pipelines, both sides real code, full observation)."""
import lazy_dataset
from lazy_dataset.core import ListDataset, DictDataset

from engine import rt
from engine import universe as U
from engine.xh import Family

rt.quiet_logging()
rt.install_shims()

META = dict(
    engine='E1 CrossHair 0.0.110',
    functions=['BatchDataset/UnbatchDataset', 'SliceDataset over SliceDataset', 'MapDataset (__iter__/__getitem__/keys/len forwarding)', 'Dataset.tile/split/concatenate/shuffle/sort/cache/filter/batch_map',
               'ConcatenateDataset', 'CacheDataset', 'FilterDataset'],
    stubs=['numpy -> np_shim', 'pickle -> pickle_shim', 'rng -> engine.rt.Rng (both sides get equally seeded carriers)', 'Dataset.__repr__ -> constant'],
    assumptions=['observation = iteration (twice), len, keys(), items(), ds[i] for one symbolic i; two sides agree if they return equal values or both raise (IndexError is told apart from refusals)',
                 'laws are instantiated at the root and under one prefix op (map, reversing slice, concatenation with a second source)',
                 'sort laws under "sort keys pairwise distinct"'],
    bounds=dict(quick='n <= 3 (slice composition n <= 2), batch sizes 1..3, k and r in 1..3', thorough='n <= 4 (slice composition n <= 3)'),
    outside=['n above the bound', 'laws under prefixes of depth > 1'],
)

XP = [(f'x{i}', 'int') for i in range(4)] + [(f'y{i}', 'int') for i in range(3)]
QP = [(f'q{i}', 'int') for i in range(6)]
RP = [(f'r{i}', 'int') for i in range(7)]


def _obs(ds, i):
    def attempt(fn):
        try:
            return ('value', fn())
        except IndexError:
            return ('raises', 'IndexError')
        except Exception:   # noqa
            return ('raises', 'refusal')       # which exception class signals an unsupported operation is not part of the laws
    return (attempt(lambda: list(ds)), attempt(lambda: list(ds)), attempt(lambda: len(ds)), attempt(lambda: list(ds.keys())),
            attempt(lambda: list(ds.items())), attempt(lambda: ds[i]))


def _base(backing, n, prefix, xs, ys):
    vals = rt.mk(n, xs)
    if backing == 'dict':
        ds = DictDataset({rt.KEYS[j]: v for j, v in enumerate(vals)})
        other = DictDataset({rt.KEYS_B[j]: v for j, v in enumerate(ys)})
    else:
        ds = ListDataset(list(vals))
        other = ListDataset(list(ys))
    if prefix == 'map':
        ds = ds.map(lambda v: v * 2)
    elif prefix == 'rev':
        ds = ds[::-1]
    elif prefix == 'cat':
        ds = ds.concatenate(other)
    return ds


def _len_bound(n, prefix):
    return n + 3 if prefix == 'cat' else n


def body_law(law, param, backing, n, prefix, *args):
    xs, ys = list(args[:4]), list(args[4:7])
    q = list(args[7:13])
    r = list(args[13:20])
    i = args[20]
    base = _base(backing, n, prefix, xs, ys)
    LB = _len_bound(n, prefix) * (param if law == 'tile' else 1)
    rt.assume(-LB - 2 <= i)
    rt.assume(i < LB + 2)
    f = lambda v: v + q[0]
    g = lambda v: v * 3 - q[1]
    if law == 'batch_unbatch':
        L, R = base.batch(param).unbatch(), base.filter(lambda v: True)      # both: iteration only, no len / index
    elif law == 'concat_split':
        if param > _len_bound(n, prefix):
            rt.reached()
            return True
        L, R = lazy_dataset.concatenate(*base.split(param)), base
        if param == 1:
            R = base[:]
    elif law == 'map_fusion':
        L, R = base.map(f).map(g), base.map(lambda v: g(f(v)))
    elif law == 'map_slice':
        sa, sb, step = U.SLICE_FORMS[param]
        sl = slice(q[2] if sa else None, q[3] if sb else None, step)
        L, R = base.map(f)[sl], base[sl].map(f)
    elif law == 'map_idx':
        m = _len_bound(n, prefix)
        rt.assume(-m <= q[2] < m)
        rt.assume(-m <= q[3] < m)
        L, R = base.map(f)[[q[2], q[3]]], base[[q[2], q[3]]].map(f)
    elif law == 'map_shuffle':
        L, R = base.map(f).shuffle(False, rng=rt.Rng(sel=list(r))), base.shuffle(False, rng=rt.Rng(sel=list(r))).map(f)
    elif law == 'map_sort':
        vs = [f(v) for v in list(base)]
        for a in range(len(vs)):
            for b in range(a + 1, len(vs)):
                rt.assume(g(vs[a]) != g(vs[b]))
        L, R = base.map(f).sort(g, reverse=param), base.sort(lambda v: g(f(v)), reverse=param).map(f)
    elif law == 'map_concat':
        L, R = base.map(f).concatenate(base.map(f)), base.concatenate(base).map(f)
    elif law == 'map_batch':
        L, R = base.map(f).batch(param), base.batch(param).batch_map(f)
    elif law == 'map_cache':
        L, R = base.map(f).cache(), base.cache().map(f)
    elif law == 'filter_select':
        # filter commutes with an order-preserving selection (positive-step slice)
        sa, sb, step = U.SLICE_FORMS[param]
        sl = slice(q[2] if sa else None, q[3] if sb else None, step)
        m = _len_bound(n, prefix)
        pos = U.ref_slice_positions(m, sl.start, sl.stop, step)
        tagged = base.zip(ListDataset(list(range(m))))
        p = lambda ex: ex[0] > q[4]
        L = tagged[sl].filter(p)
        R = tagged.filter(p).filter(lambda ex: any(ex[1] == k for k in pos))
    elif law == 'tile':
        L, R = base.tile(param), (lazy_dataset.concatenate(*[base] * param) if param > 1 else base)
    else:
        raise ValueError(law)
    a, b = _obs(L, i), _obs(R, i)
    rt.reached()
    if law == 'batch_unbatch':
        return a[:2] == b[:2]         # unbatch() offers iteration only: the identity is an identity of iteration
    return a == b


def _conds(tier, seed):
    out = []
    nmax = 3 if tier == 'quick' else 4
    laws = [('batch_unbatch', 1), ('batch_unbatch', 2), ('batch_unbatch', 3), ('concat_split', 1), ('concat_split', 2), ('concat_split', 3),
            ('map_fusion', 0), ('map_slice', 'ab'), ('map_slice', 'abm1'), ('map_slice', 'ab2'), ('map_slice', 'm2'), ('map_idx', 0), ('map_shuffle', 0),
            ('map_sort', False), ('map_sort', True), ('map_concat', 0), ('map_batch', 1), ('map_batch', 2), ('map_batch', 3), ('map_cache', 0),
            ('filter_select', 'ab'), ('filter_select', 'ab2'), ('filter_select', 'a_'), ('tile', 1), ('tile', 2), ('tile', 3)]
    for law, param in laws:
        for backing in ('list', 'dict'):
            for n in range(0, nmax + 1):
                for prefix in ('none', 'map', 'rev', 'cat'):
                    m = _len_bound(n, prefix)
                    if law in ('map_shuffle',) and m > 3:
                        continue
                    if law in ('map_sort',) and m > 4:
                        continue
                    if law in ('map_slice', 'filter_select') and m > (4 if tier == 'quick' else 5):
                        continue
                    if law == 'filter_select' and backing == 'dict':
                        continue
                    if law == 'map_idx' and m == 0:
                        continue              # no valid index entry exists
                    if tier == 'quick':
                        if prefix == 'cat' and (n > 1 or law in ('map_slice', 'map_idx', 'map_sort', 'filter_select', 'map_shuffle')):
                            continue          # n + 3 examples under a symbolic selection / ordering: thorough tier
                        if law == 'filter_select' and n > 2:
                            continue
                        if law in ('map_slice', 'map_idx') and n > 2 and prefix == 'rev':
                            continue
                    out.append((law, param, backing, n, prefix))
    return out


def body_tile_shuffle(backing, n, reps, *r):
    """tile(r, shuffle=True) equals the concatenation of r one-time shuffles drawn from the same generator state (the documented meaning of
    the flag); both sides run under an equally seeded stand-in for the global numpy generator"""
    vals = list(range(n))
    mk = (lambda: ListDataset(list(vals))) if backing == 'list' else (lambda: DictDataset({rt.KEYS[j]: v for j, v in enumerate(vals)}))
    with rt.global_rng(rt.Rng(sel=list(r))):
        lhs_ds = mk().tile(reps, shuffle=True)
        lhs = list(lhs_ds)
        lhs_len = len(lhs_ds)
    with rt.global_rng(rt.Rng(sel=list(r))):
        src = mk()
        parts = [src.shuffle() for _ in range(reps)]
        rhs_ds = parts[0] if reps == 1 else lazy_dataset.concatenate(*parts)
        rhs = list(rhs_ds)
    rt.reached()
    return lhs == rhs and lhs_len == n * reps


def body_slice_compose(backing, n, f1, f2, x0, x1, x2, x3, a, b, c, d, i):
    """ds[s1][s2] equals the elementary composition of the two selections"""
    vals = rt.mk(n, [x0, x1, x2, x3])
    ds = ListDataset(list(vals)) if backing == 'list' else DictDataset({rt.KEYS[j]: v for j, v in enumerate(vals)})
    sa1, sb1, st1 = U.SLICE_FORMS[f1]
    sa2, sb2, st2 = U.SLICE_FORMS[f2]
    s1 = slice(a if sa1 else None, b if sb1 else None, st1)
    s2 = slice(c if sa2 else None, d if sb2 else None, st2)
    rt.assume(-n - 2 <= i)
    rt.assume(i < n + 2)
    out = ds[s1][s2]
    p1 = U.ref_slice_positions(n, s1.start, s1.stop, st1)
    p2 = U.ref_slice_positions(len(p1), s2.start, s2.stop, st2)
    want = [vals[p1[k]] for k in p2]
    got = list(out)
    rt.reached()
    if got != want or len(out) != len(want):
        return False
    if backing == 'dict' and list(out.keys()) != [rt.KEYS[p1[k]] for k in p2]:
        return False
    m = len(want)
    try:
        v = out[i]
    except IndexError:
        return not (-m <= i < m)
    if not (-m <= i < m):
        return False
    j = i if i >= 0 else i + m
    return any(j == k and v == want[k] for k in range(m))


def _sc_conds(tier, seed):
    forms = ['ab', 'abm1', 'ab2', 'm1', 'a_', '_b']
    out = []
    for backing in ('list', 'dict'):
        for n in ((0, 2) if tier == 'quick' else (0, 1, 2, 3)):
            for f1 in forms:
                for f2 in forms:
                    if backing == 'dict' and tier == 'quick' and (f1, f2) not in (('ab', 'ab'), ('abm1', 'ab2'), ('m1', 'ab')):
                        continue
                    out.append((backing, n, f1, f2))
    return out


FAMILIES = [
    Family('law', body_law, ['law', 'param', 'backing', 'n', 'prefix'], XP + QP + RP + [('i', 'int')], _conds, timeout=dict(quick=300, thorough=300),
           desc='both sides of a law built from real code and observed identically'),
    Family('tile_shuffle', body_tile_shuffle, ['backing', 'n', 'reps'], [(f'r{i}', 'int') for i in range(9)],
           lambda tier, seed: [(b, n, r) for b in ('list', 'dict') for n in (0, 1, 2, 3) for r in (1, 2, 3) if n * r <= 9 and not (n == 0 and r > 1)],
           timeout=dict(quick=300, thorough=600), desc='tile(r, shuffle=True) == concatenate(r one-time shuffles) under the same generator state'),
    Family('slice_compose', body_slice_compose, ['backing', 'n', 'f1', 'f2'], [(f'x{i}', 'int') for i in range(4)] + [(c, 'int') for c in 'abcd'] + [('i', 'int')],
           _sc_conds, timeout=dict(quick=240, thorough=900), desc='nested slices compose like list slices'),
]
