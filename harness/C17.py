"""C17 - dynamic bucketing conserves examples and honours its limits (E1 CrossHair, example lengths are unbounded symbolic ints)."""
from lazy_dataset.core import ListDataset, DynamicTimeSeriesBucket, DynamicBucket, Dataset

from engine import rt
from engine.xh import Family

rt.quiet_logging()
rt.install_shims()

META = dict(
    engine='E1 CrossHair 0.0.110, float model pinned to real arithmetic',
    functions=['lazy_dataset.core.DynamicBucket.maybe_append/is_completed', 'lazy_dataset.core.DynamicTimeSeriesBucket.__init__/assess/_append/is_completed',
               'lazy_dataset.core.DynamicBucketDataset.__iter__', 'lazy_dataset.core.Dataset.batch_dynamic_time_series_bucket/batch_dynamic_bucket'],
    stubs=['CrossHair float representation pinned to RealBasedSymbolicFloat: for the dyadic rates {0, .25, .5, .75} and integer lengths below 2^51 every product/quotient the bucket '
           'computes is exactly representable or strictly between integers, so real and IEEE semantics agree', 'source -> instrumented list dataset that logs every pull'],
    assumptions=['example lengths are symbolic integers >= 1 (unbounded above in the model; < 2^51 for the float argument)', 'max_total_size, expiration, max_buffered_examples are symbolic integers or None',
                 'a bucket created while example c is consumed must be emitted no later than while example c+expiration is processed',
                 '"withheld" is measured at the moments the bucketing stage pulls the next source example'],
    bounds=dict(quick='n <= 4 examples, batch_size 1..3, rate in {0, .5} (+.25/.75 at n<=3)', thorough='n <= 5, batch_size 1..3, all four rates'),
    outside=['padding rates that are not dyadic (.2, .9)', 'n above the bound'],
)

LP = [(f'l{i}', 'int') for i in range(5)]


class Src(Dataset):
    """list source that logs each pull (number of examples handed out so far)"""

    def __init__(self, examples, pulls):
        self.examples, self.pulls = examples, pulls

    indexable = True
    ordered = True

    def copy(self, freeze=False):
        return self

    def __len__(self):
        return len(self.examples)

    def __iter__(self, with_key=False):
        for j, e in enumerate(self.examples):
            self.pulls.append(j)
            yield e


def _run(lens, batch_size, rate4, mts, exp, mbe, drop, sort):
    pulls = []
    exs = [{'i': i, 'len': L} for i, L in enumerate(lens)]
    ds = Src(exs, pulls).batch_dynamic_time_series_bucket(
        batch_size=batch_size, len_key='len', max_padding_rate=rate4 / 4, max_total_size=mts, expiration=exp, max_buffered_examples=mbe,
        drop_incomplete=drop, sort_key=('len' if sort else None), reverse_sort=(sort == 'rev'))
    batches, marks = [], []
    emitted = 0
    worst_withheld = 0
    it = iter(ds)
    while True:
        p0 = len(pulls)
        try:
            b = next(it)
        except StopIteration:
            break
        # pulls p0..len(pulls)-1 happened while `emitted` examples had been handed to the consumer
        for j in range(p0, len(pulls)):
            withheld = pulls[j] - emitted
            if withheld > worst_withheld:
                worst_withheld = withheld
        batches.append(b)
        marks.append(len(pulls))
        emitted += len(b)
    return batches, marks, worst_withheld


def _completed(b, batch_size, mts):
    mx = max(e['len'] for e in b)
    return len(b) >= batch_size or (mts is not None and (len(b) + 1) * mx > mts)


def body_bucket(n, batch_size, rate4, has_mts, has_exp, has_mbe, drop, sort, l0, l1, l2, l3, l4, mts, exp, mbe):
    rt.pin_real_floats()
    # l_i >= 1, mts >= 1, exp >= 1, mbe >= 1 are `pre:` lines of the condition (with the pinned float model CrossHair
    # reports an exhausted tree as "not confirmed" when such constraints are imposed from inside the body)
    lens = rt.mk(n, [l0, l1, l2, l3, l4])
    mts = mts if has_mts else None
    exp = exp if has_exp else None
    mbe = mbe if has_mbe else None
    batches, marks, worst = _run(lens, batch_size, rate4, mts, exp, mbe, drop, sort)
    rt.reached()
    seen = [0] * n
    for b, mark in zip(batches, marks):
        if len(b) == 0 or len(b) > batch_size:
            return False
        mn = min(e['len'] for e in b)
        mx = max(e['len'] for e in b)
        if mn * 4 < mx * (4 - rate4):                       # padding-rate bound, integer cross-multiplication
            return False
        if mts is not None and len(b) > 1 and len(b) * mx > mts:
            return False
        for e in b:
            seen[e['i']] += 1
        if sort:
            for a, c in zip(b, b[1:]):
                if sort == 'rev':
                    if a['len'] < c['len']:
                        return False
                elif a['len'] > c['len']:
                    return False
        if exp is not None:
            created = min(e['i'] for e in b)
            if (mark - 1) - created > exp:                  # emitted while example index mark-1 was being processed
                return False
    if any(c > 1 for c in seen):
        return False
    if not drop and any(c != 1 for c in seen):              # conservation
        return False
    if mbe is not None and not drop and worst > mbe:
        # (with drop_incomplete=True discarded examples are not withheld but cannot be told apart from outside; the bucketing is
        # the same as in the keep run, which is compared below)
        return False
    if drop:
        # exactly the batches that never completed are dropped: same run without dropping, minus the incomplete ones
        keep, _, _ = _run(lens, batch_size, rate4, mts, exp, mbe, False, sort)
        want = [[e['i'] for e in b] for b in keep if _completed(b, batch_size, mts)]
        got = [[e['i'] for e in b] for b in batches]
        if got != want:
            return False
    return True


class IntBucket(DynamicBucket):
    """integer-only bucket through the public bucket_cls parameter: examples join while their parity matches"""

    def assess(self, example):
        return (example['len'] - self.data[0]['len']) % 2 == 0


def body_generic(n, batch_size, has_exp, has_mbe, drop, l0, l1, l2, l3, l4, exp, mbe):
    """DynamicBucketDataset.__iter__ logic without floats"""
    lens = rt.mk(n, [l0, l1, l2, l3, l4])
    exp = exp if has_exp else None
    mbe = mbe if has_mbe else None
    if exp is not None:
        rt.assume(exp >= 1)
    if mbe is not None:
        rt.assume(mbe >= 1)
    pulls = []
    exs = [{'i': i, 'len': L} for i, L in enumerate(lens)]
    ds = Src(exs, pulls).batch_dynamic_bucket(IntBucket, expiration=exp, max_buffered_examples=mbe, drop_incomplete=drop, batch_size=batch_size)
    seen = [0] * n
    batches = list(ds)
    rt.reached()
    for b in batches:
        if len(b) == 0 or len(b) > batch_size:
            return False
        for e in b:
            seen[e['i']] += 1
            if (e['len'] - b[0]['len']) % 2 != 0:
                return False
        if [e['i'] for e in b] != sorted(e['i'] for e in b):
            return False
        if drop and len(b) != batch_size:
            return False
    if any(c > 1 for c in seen):
        return False
    if not drop and any(c != 1 for c in seen):
        return False
    return True


def _conds(tier, seed):
    out = []
    nmax = 4 if tier == 'quick' else 5
    for n in range(0, nmax + 1):
        for bs in (1, 2, 3):
            for rate4 in (0, 1, 2, 3):
                if tier == 'quick' and rate4 in (1, 3) and n > 3:
                    continue
                for (hm, he, hb) in ((False, False, False), (True, False, False), (False, True, False), (False, False, True), (True, True, True)):
                    for drop in (False, True):
                        for sort in (False, 'asc', 'rev'):
                            if sort and (n < 2 or bs < 2 or (tier == 'quick' and (hm or he or hb))):
                                continue
                            if tier == 'quick' and n == 4 and (he and hb):
                                continue
                            out.append((n, bs, rate4, hm, he, hb, drop, sort))
    return out


def _gconds(tier, seed):
    out = []
    for n in range(0, (5 if tier == 'quick' else 6)):
        for bs in (1, 2, 3):
            for he in (False, True):
                for hb in (False, True):
                    for drop in (False, True):
                        out.append((n, bs, he, hb, drop))
    return out


FAMILIES = [
    Family('bucket', body_bucket, ['n', 'batch_size', 'rate4', 'has_mts', 'has_exp', 'has_mbe', 'drop', 'sort'], LP + [('mts', 'int'), ('exp', 'int'), ('mbe', 'int')], _conds,
           pre=lambda sel: ['l0 >= 1 and l1 >= 1 and l2 >= 1 and l3 >= 1 and l4 >= 1', 'mts >= 1 and exp >= 1 and mbe >= 1'],
           timeout=dict(quick=240, thorough=900), desc='DynamicTimeSeriesBucket: conservation, size, padding, max_total_size, expiration, max_buffered_examples, drop mode, sort'),
    Family('generic', body_generic, ['n', 'batch_size', 'has_exp', 'has_mbe', 'drop'], LP + [('exp', 'int'), ('mbe', 'int')], _gconds, timeout=dict(quick=240, thorough=600),
           desc='DynamicBucketDataset.__iter__ with an integer-only bucket class'),
]
