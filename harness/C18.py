"""C18 - sorting and grouping reorder without losing or inventing examples (E1, CrossHair)."""
import itertools

import lazy_dataset
from lazy_dataset.core import ListDataset, DictDataset

from engine import rt
from engine.xh import Family

rt.quiet_logging()
rt.install_shims()

META = dict(
    engine='E1 CrossHair 0.0.110 (symbolic execution of the real code, z3 per branch)',
    functions=['lazy_dataset.core.Dataset.sort', 'lazy_dataset.core.Dataset.groupby', 'lazy_dataset.core.SliceDataset.__init__/__iter__/keys',
               'lazy_dataset.core.MapDataset.__iter__', 'lazy_dataset.core.ItemsDataset.__iter__'],
    stubs=['numpy -> engine/shims/np_shim.py (arange, index-array selection; validated against numpy each run)'],
    assumptions=['examples are dicts (incomparable): any comparison of examples raises TypeError and fails the harness',
                 'sort keys are unbounded integers (ties reachable); group ids range over n distinct integers (every equality '
                 'pattern of n ids is reachable; ids are used only through ==/hash); string keys are the concrete k0..k4',
                 'dataset length n <= bound of the tier'],
    bounds=dict(quick='sort: n <= 4, groupby: n <= 3; prefix op in {none, map, reversed slice, concatenate}; sort keys unbounded ints',
                thorough='sort: n <= 5, groupby: n <= 4; same prefix ops; key-less sort over all key orders of n <= 4'),
    outside=['n above the bound', 'non-integer sort keys', 'custom sort_fn other than the two in family sort_fn'],
)

NMAX = dict(quick=4, thorough=5)
XS = [('x0', 'int'), ('x1', 'int'), ('x2', 'int'), ('x3', 'int'), ('x4', 'int')]


def _source(n, backing, xs, prefix):
    vals = rt.mk(n, xs)
    exs = [{'v': x, 'i': i} for i, x in enumerate(vals)]
    if backing == 'dict':
        ds = DictDataset({rt.KEYS[i]: e for i, e in enumerate(exs)})
    else:
        ds = ListDataset(exs)
    ids = list(range(n))
    if prefix == 'map':
        ds = ds.map(lambda e: {'v': e['v'], 'i': e['i'], 'm': 1})
    elif prefix == 'rev':
        ds = ds[::-1]
        ids = ids[::-1]
    elif prefix == 'cat':
        if backing == 'dict':
            other = DictDataset({rt.KEYS_B[i]: {'v': e['v'], 'i': e['i'] + n} for i, e in enumerate(exs)})
        else:
            other = ListDataset([{'v': e['v'], 'i': e['i'] + n} for e in exs])
        ds = ds.concatenate(other)
        ids = ids + [i + n for i in ids]
    return ds, ids


def body_sort(n, backing, prefix, x0, x1, x2, x3, x4, rev):
    ds, ids = _source(n, backing, [x0, x1, x2, x3, x4], prefix)
    out_ds = ds.sort(lambda ex: ex['v'], reverse=rev)
    out = list(out_ds)
    rt.reached()
    if len(out) != len(ids) or len(out_ds) != len(ids):
        return False
    seen = sorted(e['i'] for e in out)
    if seen != sorted(ids):
        return False
    for a, b in zip(out, out[1:]):
        if rev:
            if a['v'] < b['v']:
                return False
        else:
            if a['v'] > b['v']:
                return False
    if backing == 'dict':
        # keys stay attached to their examples
        allkeys = rt.KEYS[:n] + rt.KEYS_B[:n]
        items = list(out_ds.items())
        if [v for _, v in items] != out:
            return False
        for k, v in items:
            want = rt.KEYS[v['i']] if v['i'] < n else rt.KEYS_B[v['i'] - n]
            if k != want:
                return False
        if list(out_ds.keys()) != [k for k, _ in items]:
            return False
    return True


def body_sort_nokey(n, perm_id, rev):
    """key-less sort uses the example keys as sort keys, reverse included"""
    keys = rt.KEYS[:n]
    order = list(list(itertools.permutations(range(n)))[perm_id])
    ds = DictDataset({keys[j]: {'i': j} for j in order})
    out_ds = ds.sort(reverse=rev)
    got = list(out_ds.keys())
    rt.reached()
    want = sorted(keys)
    if rev:
        want = want[::-1]
    if got != want:
        return False
    return [e['i'] for e in out_ds] == [keys.index(k) for k in want]


def body_sort_repeat(n, perm_id, mode, r0, r1, r2):
    """several sorts of the *same* dataset object (key-less or with a key function), reverse flags chosen by the solver: every
    result is ordered as requested - an earlier sort leaves nothing behind"""
    keys = rt.KEYS[:n]
    order = list(list(itertools.permutations(range(n)))[perm_id])
    ds = DictDataset({keys[j]: {'i': j, 'v': 10 - j} for j in order})
    rt.reached()
    for rev in (r0, r1, r2):
        if mode == 'nokey':
            out_ds = ds.sort(reverse=rev)
            want = sorted(keys, reverse=bool(rev))
        else:
            out_ds = ds.sort(lambda ex: ex['v'], reverse=rev)
            want = sorted(keys, key=lambda k: 10 - keys.index(k), reverse=bool(rev))
        if list(out_ds.keys()) != want:
            return False
        if [e['i'] for e in out_ds] != [keys.index(k) for k in want]:
            return False
    return list(ds.keys()) == [keys[j] for j in order]        # and the sorted dataset itself is untouched


def _desc(seq, reverse=False):
    return sorted(seq, key=lambda t: t if not isinstance(t, tuple) else (-t[0], t[1]), reverse=reverse)


def body_sort_fn(n, x0, x1, x2, x3, rev):
    """a custom sort_fn decides the order; the dataset must follow it and still be a permutation"""
    vals = rt.mk(n, [x0, x1, x2, x3])
    ds = ListDataset([{'v': x, 'i': i} for i, x in enumerate(vals)])
    out = list(ds.sort(lambda ex: ex['v'], sort_fn=_desc, reverse=rev))
    rt.reached()
    if sorted(e['i'] for e in out) != list(range(n)):
        return False
    for a, b in zip(out, out[1:]):
        if rev:
            if a['v'] > b['v']:
                return False
        else:
            if a['v'] < b['v']:
                return False
    return True


GROUP_IDS = [None, 'x', 7, (1, 2), '']        # arbitrary hashable, pairwise different group ids (None and falsy ones included)


def body_groupby(n, backing, prefix, g0, g1, g2, g3, g4, idset='int'):   # idset is passed by body_groupby_hashable only
    # groupby touches the ids only through ==/hash, so n distinct values reach every equality
    # pattern (set partition) of n ids; hashing a symbolic int realises it, hence the range
    for g in rt.mk(n, [g0, g1, g2, g3, g4]):
        rt.assume(0 <= g)
        rt.assume(g < n)
    ds, ids = _source(n, backing, [g0, g1, g2, g3, g4], prefix)
    flat = list(ds)
    if idset == 'hashable':
        def gid_of(ex):
            # the integer selector picks one of the hashable ids (elementary selection, no symbolic list index)
            out = GROUP_IDS[0]
            for j in range(1, len(GROUP_IDS)):
                if ex['v'] == j:
                    out = GROUP_IDS[j]
            return out
        groups = ds.groupby(gid_of)
        rt.reached()
        total = 0
        for gid, sub in groups.items():
            members = list(sub)
            total += len(members)
            want = [e for e in flat if gid_of(e) == gid and type(gid_of(e)) is type(gid)]
            if len(members) == 0 or [e['i'] for e in members] != [e['i'] for e in want]:
                return False
        if total != len(flat):
            return False
        return all(any(k == gid_of(e) and type(k) is type(gid_of(e)) for k in groups) for e in flat)
    groups = ds.groupby(lambda ex: ex['v'])
    rt.reached()
    total = 0
    for gid, sub in groups.items():
        members = list(sub)
        total += len(members)
        if len(members) == 0:
            return False
        # every member carries this group id, and the members are exactly those of `flat` with that id, in order
        want = [e for e in flat if e['v'] == gid]
        if [e['i'] for e in members] != [e['i'] for e in want]:
            return False
    if total != len(flat):
        return False
    for e in flat:
        found = False
        for gid in groups:
            if gid == e['v']:
                found = True
        if not found:
            return False
    return True


def body_groupby_hashable(n, backing, prefix, g0, g1, g2, g3, g4):
    return body_groupby(n, backing, prefix, g0, g1, g2, g3, g4, idset='hashable')


def _conds_sort(tier, seed):
    out = []
    for n in range(0, NMAX[tier] + 1):
        for backing in ('list', 'dict'):
            for prefix in ('none', 'map', 'rev', 'cat'):
                if prefix == 'cat' and 2 * n > NMAX[tier]:
                    continue
                out.append((n, backing, prefix))
    return out


def _conds_nokey(tier, seed):
    out = []
    for n in range(0, 4 + 1 if tier == 'thorough' else 3 + 1):
        for p in range(len(list(itertools.permutations(range(n))))):
            out.append((n, p))
    return out


FAMILIES = [
    Family('sort', body_sort, ['n', 'backing', 'prefix'], XS + [('rev', 'bool')], _conds_sort, timeout=dict(quick=60, thorough=600),
           desc='sort(key_fn, reverse): permutation, monotone in the requested direction, keys attached'),
    Family('sort_nokey', body_sort_nokey, ['n', 'perm_id'], [('rev', 'bool')], _conds_nokey, timeout=30,
           desc='sort() without key_fn orders by example key, reverse honoured'),
    Family('sort_repeat', body_sort_repeat, ['n', 'perm_id', 'mode'], [('r0', 'bool'), ('r1', 'bool'), ('r2', 'bool')],
           lambda tier, seed: [(n, p, m) for (n, p) in _conds_nokey(tier, seed) if n >= 2 for m in ('nokey', 'key')], timeout=60,
           desc='three sorts of one dataset object with solver-chosen reverse flags (hidden state between calls)'),
    Family('sort_fn', body_sort_fn, ['n'], XS[:4] + [('rev', 'bool')], lambda tier, seed: [(n,) for n in range(0, 5)], timeout=120,
           desc='custom sort_fn'),
    Family('groupby_hashable', body_groupby_hashable, ['n', 'backing', 'prefix'], [('g0', 'int'), ('g1', 'int'), ('g2', 'int'), ('g3', 'int'), ('g4', 'int')],
           lambda tier, seed: [c for c in _conds_sort(tier, seed) if c[0] <= (3 if tier == 'quick' else 4) and c[2] in ('none', 'rev')],
           timeout=dict(quick=60, thorough=900), desc='groupby with arbitrary hashable group ids (None, str, int, tuple, empty string)'),
    Family('groupby', body_groupby, ['n', 'backing', 'prefix'], [('g0', 'int'), ('g1', 'int'), ('g2', 'int'), ('g3', 'int'), ('g4', 'int')],
           lambda tier, seed: [c for c in _conds_sort(tier, seed) if c[0] <= (3 if tier == 'quick' else 4)],
           timeout=dict(quick=60, thorough=900), desc='groupby partitions and keeps relative order'),
]
