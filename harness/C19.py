"""C19 - the database layer builds correct, isolated datasets from its source (E1 CrossHair over real database.py, real pickle/json)."""
import copy
import gc
import json
import os
import pickle
import tempfile

from lazy_dataset.database import DictDatabase, JsonDatabase

from engine import rt
from engine.xh import Family

rt.quiet_logging()
rt.install_db_shims()

META = dict(
    engine='E1 CrossHair 0.0.110 (request sequences are symbolic selectors; database descriptions are a structural family)',
    functions=['lazy_dataset.database.Database.get_examples/get_dataset/_get_dataset/alias/dataset_names', 'lazy_dataset.database._merge_database_dicts',
               'lazy_dataset.database.DictDatabase.__init__', 'lazy_dataset.database.JsonDatabase.__init__/data/__reduce__', 'lazy_dataset.core.from_dict/concatenate'],
    stubs=['`set` in database.py -> set subclass (CrossHair 0.0.110 rejects the unbound set.intersection(a, b) on its set model)'],
    assumptions=['the symbolic variables are discrete selectors (which request comes next); the solver contributes exhaustiveness over request sequences, not arithmetic',
                 '"never changes the source" compares datasets, examples and alias contents before/after; an added empty alias section is not a change of stored aliases',
                 'real pickle and real JSON files in a scratch directory'],
    bounds=dict(quick='21 database descriptions (1-3 merged parts, 0-2 aliases, alias section in first/later/no part, dict and non-dict extra keys, duplicate dataset/alias names, '
                      'overlapping ids) x request sequences of length 2 over 12 request kinds (names, aliases, lists / tuples of names and of aliases, a missing name, garbage collection), dict- and JSON-backed',
                thorough='request sequences of length 3'),
    outside=['descriptions outside the family', 'request sequences longer than the bound', 'more than one other database alive in the process (one bystander with clashing names is always present)'],
)

A = {'a1': {'v': 1}, 'a2': {'v': 2}}
B = {'b1': {'v': 3}}
C = {'c1': {'v': 4}, 'c2': {'v': 5}}
A2 = {'a1': {'v': 9}}        # overlaps ids with A

# name -> (parts, expected outcome of construction: 'ok' | 'reject')
DESCS = {
    'one':            ([{'datasets': {'dsA': A, 'dsB': B}, 'alias': {'al1': ['dsA', 'dsB']}}], 'ok'),
    'one_noalias':    ([{'datasets': {'dsA': A, 'dsB': B}}], 'ok'),
    'one_extra':      ([{'datasets': {'dsA': A}, 'alias': {'al1': ['dsA']}, 'meta': {'x': 1}, 'version': 3}], 'ok'),
    'two_first':      ([{'datasets': {'dsA': A}, 'alias': {'al1': ['dsA']}}, {'datasets': {'dsB': B}}], 'ok'),
    'two_both':       ([{'datasets': {'dsA': A}, 'alias': {'al1': ['dsA']}}, {'datasets': {'dsB': B}, 'alias': {'al2': ['dsB']}}], 'ok'),
    'two_later':      ([{'datasets': {'dsA': A}}, {'datasets': {'dsB': B}, 'alias': {'al1': ['dsA', 'dsB']}}], 'ok'),
    'two_none':       ([{'datasets': {'dsA': A}}, {'datasets': {'dsB': B}}], 'ok'),
    'two_extra_dict': ([{'datasets': {'dsA': A}, 'meta': {'x': 1}}, {'datasets': {'dsB': B}}], 'ok'),
    'two_extra_flat': ([{'datasets': {'dsA': A}, 'version': 3}, {'datasets': {'dsB': B}}], 'ok'),
    'three':          ([{'datasets': {'dsA': A}, 'alias': {'al1': ['dsA']}}, {'datasets': {'dsB': B}}, {'datasets': {'dsC': C}, 'alias': {'al2': ['dsB', 'dsC']}}], 'ok'),
    'three_later':    ([{'datasets': {'dsA': A}}, {'datasets': {'dsB': B}}, {'datasets': {'dsC': C}, 'alias': {'al1': ['dsA', 'dsC']}}], 'ok'),
    'dup_dataset':    ([{'datasets': {'dsA': A}}, {'datasets': {'dsA': B}}], 'reject'),
    'dup_alias':      ([{'datasets': {'dsA': A}, 'alias': {'al1': ['dsA']}}, {'datasets': {'dsB': B}, 'alias': {'al1': ['dsB']}}], 'reject'),
    'alias_eq_ds':    ([{'datasets': {'dsA': A}, 'alias': {'al1': ['dsA']}}, {'datasets': {'al1': B}}], 'reject'),
    'dup_alias_23':   ([{'datasets': {'dsA': A}}, {'datasets': {'dsB': B}, 'alias': {'al1': ['dsB']}}, {'datasets': {'dsC': C}, 'alias': {'al1': ['dsC']}}], 'reject'),
    'alias2_eq_ds3':  ([{'datasets': {'dsA': A}}, {'datasets': {'dsB': B}, 'alias': {'al1': ['dsB']}}, {'datasets': {'al1': C}}], 'reject'),
    'ds2_eq_alias3':  ([{'datasets': {'dsA': A}}, {'datasets': {'dsB': B}}, {'datasets': {'dsC': C}, 'alias': {'dsB': ['dsC']}}], 'reject'),
    'dup_dataset_23': ([{'datasets': {'dsA': A}}, {'datasets': {'dsB': B}}, {'datasets': {'dsB': C}}], 'reject'),
    'alias1_eq_ds3':  ([{'datasets': {'dsA': A}, 'alias': {'al1': ['dsA']}}, {'datasets': {'dsB': B}}, {'datasets': {'al1': C}}], 'reject'),
    'overlap_ids':    ([{'datasets': {'dsA': A, 'dsX': A2}, 'alias': {'al1': ['dsA', 'dsX']}}], 'ok'),
    'empty_ds':       ([{'datasets': {'dsA': A, 'dsE': {}}}], 'ok'),
}

_COUNTER = [0]


def _untraced():
    """harness-side file preparation runs outside CrossHair's tracer (os/time calls would otherwise create symbolic floats)"""
    if rt.SYMBOLIC:
        from crosshair.tracers import NoTracing
        return NoTracing()
    import contextlib
    return contextlib.nullcontext()


REQUESTS = ['dsA', 'dsB', 'al1', 'al2', ['dsA', 'dsB'], ('dsB', 'dsA'), 'missing', 'dsE', 'gc',
            ['al1', 'dsB'], ('dsB', 'al1'), ['al1']]       # lists that contain an alias: its examples carry the alias name, its overlap check applies


def _merged(parts):
    ds, al = {}, {}
    for p in parts:
        ds.update(p['datasets'])
        al.update(p.get('alias', {}))
    return ds, al


def _expected(parts, req):
    """('ok', list of examples) | ('raise',)"""
    ds, al = _merged(parts)
    if isinstance(req, (list, tuple)):
        out = []
        for r in req:
            e = _expected(parts, r)
            if e[0] != 'ok':
                return e
            out += e[1]
        return 'ok', out
    if req in al:
        out, seen = [], set()
        for name in al[req]:
            for eid, ex in ds[name].items():
                if eid in seen:
                    return ('raise',)
                seen.add(eid)
                out.append(dict(ex, example_id=eid, dataset=req))
        return ('ok', out) if out else ('raise',)
    if req in ds:
        out = [dict(ex, example_id=eid, dataset=req) for eid, ex in ds[req].items()]
        return ('ok', out) if out else ('raise',)
    return ('raise',)


def _pick(sel, n):
    k = 0
    while k < n - 1 and k != sel:
        k += 1
    return k


def _content(parts):
    """datasets, examples and aliases of the source (an added empty alias section is not a change)"""
    out = []
    for p in parts:
        q = copy.deepcopy(p)
        if q.get('alias') == {}:
            del q['alias']
        out.append(q)
    return out


OTHER = {'datasets': {'dsA': {'o1': {'v': 70}}, 'dsB': {'o2': {'v': 71}, 'o3': {'v': 72}}, 'dsC': {'o4': {'v': 73}}, 'dsE': {'o5': {'v': 74}}},
         'alias': {'al1': ['dsB'], 'al2': ['dsA', 'dsC']}}


def _other_expected(name):
    ds, al = OTHER['datasets'], OTHER['alias']
    out = []
    for n in (al[name] if name in al else [name]):
        for k, v in ds[n].items():
            out.append(dict(v, example_id=k, dataset=name))
    return out


def body_db(kind, desc, nreq, r0, r1, r2):
    # a bystander: another database of the same process that uses the same dataset and alias names for different content, with its
    # datasets still alive while the database under test is built and queried ("every database description" is per database object)
    other = DictDatabase(copy.deepcopy(OTHER))
    other_held = {n: other.get_dataset(n) for n in ('dsA', 'dsB', 'al1', 'al2')}
    ok = _body_db(kind, desc, nreq, r0, r1, r2)
    if ok:
        for n, dso in other_held.items():
            if list(dso) != _other_expected(n) or list(other.get_dataset(n)) != _other_expected(n):
                return False
    return ok


def _body_db(kind, desc, nreq, r0, r1, r2):
    parts_src, construct = DESCS[desc]
    parts = copy.deepcopy(parts_src)
    pristine = _content(parts)
    rs = [r0, r1, r2][:nreq]
    for r in rs:
        rt.assume(0 <= r)
        rt.assume(r < len(REQUESTS))
    tmp = None
    try:
        try:
            if kind == 'dict':
                db = DictDatabase(*parts) if desc != 'three' else DictDatabase(list(parts))
                if construct == 'reject' and set(db.data) >= {'datasets'}:
                    pass
                _ = db.data
            else:
                # (no tempfile.mkdtemp: it draws from `random`, which CrossHair replaces by a symbolic contract)
                with _untraced():
                    _COUNTER[0] += 1
                    tmp = os.path.join(os.environ.get('VERIF_WORK') or '/var/tmp', f'c19_{os.getpid()}_{_COUNTER[0]}')
                    os.makedirs(tmp, exist_ok=True)
                    paths = []
                    for j, p in enumerate(parts):
                        path = os.path.join(tmp, f'p{j}.json')
                        with open(path, 'w') as fd:
                            json.dump(p, fd)
                        paths.append(path)
                db = JsonDatabase(*paths)
                _ = db.data
        except AssertionError:
            rt.reached()
            return construct == 'reject'
        if construct == 'reject':
            return False
        ds_all, al_all = _merged(parts_src)
        if set(db.dataset_names) != set(ds_all) | set(al_all):
            return False
        db2 = pickle.loads(pickle.dumps(db)) if kind == 'json' else None
        held = {}
        for r in rs:
            req = REQUESTS[_pick(r, len(REQUESTS))]
            if req == 'gc':
                held.clear()
                gc.collect()
                continue
            exp = _expected(parts_src, req)
            try:
                got_ds = db.get_dataset(req)
                got = list(got_ds)
            except Exception:   # noqa
                if exp[0] != 'raise':
                    return False
                continue
            if exp[0] == 'raise' or got != exp[1]:
                return False
            if isinstance(req, str):
                # repeated requests are served from one shared dataset while it is alive
                if db.get_dataset(req) is not got_ds:
                    return False
                if req in held and held[req] is not got_ds:
                    return False
                held[req] = got_ds
                if list(got_ds.keys()) != [e['example_id'] for e in exp[1]]:
                    return False
            # examples handed out are copies: mutating them must not reach the source
            for e in got:
                e['v'] = -1
                e['new'] = 1
            if list(db.get_dataset(req)) != exp[1]:
                return False
            if db2 is not None and list(db2.get_dataset(req)) != exp[1]:
                return False
        rt.reached()
        if kind == 'dict' and _content(parts) != pristine:
            return False
        return True
    finally:
        if tmp:
            import shutil
            shutil.rmtree(tmp, ignore_errors=True)


def _conds(tier, seed):
    out = []
    for kind in ('dict', 'json'):
        for desc in DESCS:
            out.append((kind, desc, 2 if tier == 'quick' else 3))
    return out


FAMILIES = [
    Family('db', body_db, ['kind', 'desc', 'nreq'], [('r0', 'int'), ('r1', 'int'), ('r2', 'int')], _conds, timeout=dict(quick=300, thorough=900), path_timeout=60,
           desc='database descriptions x request sequences'),
]
