"""C20 - the profiling wrapper is transparent and counts truthfully (E1 CrossHair, universe L2)."""
import itertools

from lazy_dataset.core import ProfilingDataset, Dataset

from engine import rt
from engine import universe as U
from engine.xh import Family

rt.quiet_logging()
rt.install_shims()

META = dict(
    engine='E1 CrossHair 0.0.110, shared pipeline universe',
    functions=['lazy_dataset.core.ProfilingDataset.__init__/__iter__/__getitem__/__len__/keys/copy', 'copy() of every stage in the universe (taken by the wrapper)'],
    stubs=['ProfilingDataset.timestamp -> integer counter (time is not part of the property; CrossHair would make perf_counter a symbolic float)',
           'numpy -> np_shim', 'pickle -> pickle_shim', 'lazy_parallel_map/single_thread_prefetch -> serial contract', 'Dataset.__repr__ -> constant'],
    assumptions=['"changes nothing" is asserted for iteration, len, integer indexing, keys() and errors (items() is not in the statement; the wrapper refuses it)',
                 '"leaves the wrapped pipeline untouched": same stage objects, classes and nesting afterwards, and the same observation',
                 'hit counts are checked where an independent measurement exists: the top-level count equals the examples delivered, the failed count equals the fetches that raised, '
                 'and the innermost (source) count equals the accesses counted by an instrumented source container'],
    bounds=dict(quick='n in 0..3; every op at depth 1; op-class pairs at depth 2 (n = 2); random stages n in {0,2} x 7 consumer placements, 2 epochs', thorough='all depth-2 pairs (dict-backed n in {1,3}, list-backed n=2)'),
    outside=['hit counts of intermediate stages (no independent measurement)', 'real prefetch threads (serial contract)', 'depth > 2'],
)


class _Clock:
    def __init__(self):
        self.t = 0

    def __call__(self):
        self.t += 1
        return self.t


class CountingList(list):
    """source container that counts example reads"""
    reads = 0

    def __getitem__(self, i):
        v = list.__getitem__(self, i)       # (an out-of-range probe is not a read)
        self.reads += 1
        return v

    def __iter__(self):
        for j in range(len(self)):
            self.reads += 1
            yield list.__getitem__(self, j)


class CountingDict(dict):
    reads = 0

    def __getitem__(self, k):
        v = dict.__getitem__(self, k)
        self.reads += 1
        return v


def _observe(ds, i):
    """(delivered examples, exception class name or None, len or 'TypeError', ds[i] or exception class name, keys or exception class name)"""
    out, exc = [], None
    try:
        for v in ds:
            out.append(v)
    except Exception as e:   # noqa
        exc = type(e).__name__
    try:
        L = len(ds)
    except TypeError:
        L = 'TypeError'
    try:
        at = ('value', ds[i])
    except Exception as e:   # noqa
        at = ('raises', type(e).__name__)
    try:
        ks = list(ds.keys())
    except Exception as e:   # noqa
        ks = type(e).__name__
    return out, exc, L, at, ks


def _structure(ds):
    out = [(type(ds).__name__, id(ds))]
    if hasattr(ds, 'input_dataset'):
        out.append(_structure(ds.input_dataset))
    if hasattr(ds, 'input_datasets'):
        out.append([_structure(d) for d in ds.input_datasets])
    return out


def _innermost(prof):
    """the ProfilingDataset that wraps the source of a single-input chain (None for multi-input pipelines)"""
    cur = prof
    while True:
        inner = cur.input_dataset
        if hasattr(inner, 'input_datasets'):
            return None
        if hasattr(inner, 'input_dataset'):
            cur = inner.input_dataset
        else:
            return cur


def body_profile(backing, n, ops, *args):
    xs, ys, qs, rs, rest = U.split_params(args)
    i = rest[0]
    LB = U.max_len(n, ops)
    rt.assume(-LB - 2 <= i)
    rt.assume(i < LB + 2)
    holder = {}

    def wrap(c):
        holder['c'] = CountingList(c) if isinstance(c, list) else CountingDict(c)
        return holder['c']
    try:
        b = U.build(backing, n, ops, xs, ys, qs, rs, wrap=wrap)
    except U.Refusal:
        rt.reached()
        return True
    ds, ref = b.ds, b.ref
    if not ref.iter_ok:
        rt.reached()
        return True
    saved = ProfilingDataset.timestamp
    ProfilingDataset.timestamp = staticmethod(_Clock())
    try:
        before = _structure(ds)
        plain = _observe(ds, i)
        try:
            prof = ProfilingDataset(ds)
        except Exception:   # noqa
            return False
        holder['c'].reads = 0
        out, exc = [], None
        try:
            for v in prof:
                out.append(v)
        except Exception as e:   # noqa
            exc = type(e).__name__
        reads_iter = holder['c'].reads
        rt.reached()
        if out != plain[0] or exc != plain[1]:
            return False
        # counts after exactly one full iteration
        if prof.hit_count[0] != len(out) + (1 if exc else 0) or prof.hit_count[1] != (1 if exc else 0):
            return False
        inner = _innermost(prof)
        if inner is not None and exc is None and not any(o[0] in ('cache', 'ecache', 'shuffle', 'sort', 'sort_nokey', 'efilt') for o in ops):
            # (stages that read their input at construction time or keep a cache are excluded from the source-count comparison)
            if inner.hit_count[0] != reads_iter:
                return False
        try:
            Lp = len(prof)
        except TypeError:
            Lp = 'TypeError'
        if Lp != plain[2]:
            return False
        h0, h1 = prof.hit_count[0], prof.hit_count[1]
        try:
            at = ('value', prof[i])
        except Exception as e:   # noqa
            at = ('raises', type(e).__name__)
        if at != plain[3]:
            return False
        # one fetch through the indexing path: counted once, and as failed exactly if it raised (whatever the exception type)
        if prof.hit_count[0] != h0 + 1 or prof.hit_count[1] != h1 + (1 if at[0] == 'raises' else 0):
            return False
        try:
            ks = list(prof.keys())
        except Exception as e:   # noqa
            ks = type(e).__name__
        if ks != plain[4]:
            return False
        # the wrapped pipeline is untouched: same objects, same nesting, same observation
        if _structure(ds) != before:
            return False
        again = _observe(ds, i)
        return again == plain
    finally:
        ProfilingDataset.timestamp = saved


def body_interleave(backing, n, ops, scenario, *args):
    """hit counts stay truthful when an iteration is interleaved with indexing or with a second iterator (linear pipelines,
    ground truth = instrumented source container)"""
    xs, ys, qs, rs, rest = U.split_params(args)
    holder = {}

    def wrap(c):
        holder['c'] = CountingList(c) if isinstance(c, list) else CountingDict(c)
        return holder['c']
    try:
        b = U.build(backing, n, ops, xs, ys, qs, rs, wrap=wrap)
    except U.Refusal:
        rt.reached()
        return True
    ds, ref = b.ds, b.ref
    if not ref.iter_ok or len(ref.vals) < 2:
        rt.reached()
        return True
    saved = ProfilingDataset.timestamp
    ProfilingDataset.timestamp = staticmethod(_Clock())
    try:
        prof = ProfilingDataset(ds)
        inner = _innermost(prof)
        holder['c'].reads = 0
        m = len(ref.vals)
        delivered = 0
        if scenario == 'index_between':
            it = iter(prof)
            first = [next(it)]
            extra = 0
            if ref.indexable:
                _ = prof[m - 1]
                extra = 1
            rest_ = list(it)
            delivered = 1 + len(rest_) + extra
            ok_vals = first + rest_ == ref.vals
        elif scenario == 'two_iterators':
            pairs = list(zip(prof, prof))
            delivered = 2 * len(pairs)
            ok_vals = [a for a, _ in pairs] == ref.vals and [b_ for _, b_ in pairs] == ref.vals
        else:   # 'abandon': an iteration that is dropped part-way, then a full one
            it = iter(prof)
            first = next(it)
            del it
            full = list(prof)
            delivered = 1 + len(full)
            ok_vals = full == ref.vals and first == ref.vals[0]
        rt.reached()
        if not ok_vals:
            return False
        if prof.hit_count[0] != delivered or prof.hit_count[1] != 0:
            return False
        if inner is not None and inner.hit_count[0] - inner.hit_count[1] != holder['c'].reads:
            return False              # successful fetches from the source == reads of the source container (failed fetches are counted separately)
        return True
    finally:
        ProfilingDataset.timestamp = saved


# ----------------------------------------------------------------------------- pipelines with random stages under freezing consumers
R_NR, R_NC = 12, 6
R_PIPES = ['reshuffle', 'reshuffle_map', 'apply', 'local', 'oneshot']
R_CONSUMERS = ['plain', 'catch_in', 'catch_out', 'pf_in', 'pf_out', 'freeze_out', 'copy_out']


def _rbuild(pid, n, rng):
    from lazy_dataset.core import ListDataset
    src = ListDataset(list(range(n)))
    if pid == 'reshuffle':
        return src.shuffle(True, rng=rng)
    if pid == 'reshuffle_map':
        return src.shuffle(True, rng=rng).map(lambda v: v + 10)
    if pid == 'apply':
        return src.apply(lambda d: d.shuffle(True, rng=rng), lazy=True)
    if pid == 'local':
        return src.shuffle(True, rng=rng, buffer_size=2)
    if pid == 'oneshot':
        return src.shuffle(False, rng=rng).map(lambda v: v + 10)
    raise ValueError(pid)


def _consume(ds, consumer, profiled, epochs):
    """-> list of per-epoch observations (examples or exception class name); the profiler is put inside or outside the consumer stage"""
    def P(x):
        return ProfilingDataset(x) if profiled else x
    try:
        if consumer == 'plain':
            top = P(ds)
        elif consumer == 'catch_in':
            top = P(ds.catch())
        elif consumer == 'catch_out':
            top = P(ds).catch()
        elif consumer == 'pf_in':
            top = P(ds.prefetch(2, 2))
        elif consumer == 'pf_out':
            top = P(ds).prefetch(2, 2)
        elif consumer == 'freeze_out':
            top = P(ds).copy(freeze=True)
        elif consumer == 'copy_out':
            top = P(ds).copy()
        else:
            raise ValueError(consumer)
    except Exception as e:   # noqa
        return [('build', type(e).__name__)]
    obs = []
    for _ in range(epochs):
        try:
            obs.append(list(top))
        except Exception as e:   # noqa
            obs.append(type(e).__name__)
    return obs


def body_random(pid, consumer, n, *args):
    """the profiled twin of a pipeline with a random stage, driven by an equally seeded generator, delivers the same epochs (or the
    same refusal) as the plain one - also under consumers that take frozen copies per iteration (catch, multi-worker prefetch)"""
    r, c = list(args[:R_NR]), list(args[R_NR:])
    saved = ProfilingDataset.timestamp
    ProfilingDataset.timestamp = staticmethod(_Clock())
    try:
        plain = _consume(_rbuild(pid, n, rt.Rng(sel=list(r), choices=list(c))), consumer, False, 2)
        prof = _consume(_rbuild(pid, n, rt.Rng(sel=list(r), choices=list(c))), consumer, True, 2)
        rt.reached()
        return plain == prof
    finally:
        ProfilingDataset.timestamp = saved


def _iconds(tier, seed):
    ops_list = [(('map',),), (('map',), ('map',)), (('sl', 'm1'),), (('map',), ('batch', 2, False)), (('filt',),), (('copy',),), (('map',), ('items',))]
    out = []
    for backing in ('list', 'dict'):
        for n in (2, 3):
            for ops in ops_list:
                for sc in ('index_between', 'two_iterators', 'abandon'):
                    if U.valid_program(n, ops[0] if len(ops) == 1 and isinstance(ops[0][0], tuple) else ops, 3):
                        out.append((backing, n, ops[0] if len(ops) == 1 and isinstance(ops[0][0], tuple) else ops, sc))
    return out


def conditions(tier, seed):
    out, seen = [], set()
    sel = ('sl', 'idx', 'nparr')

    def add(backing, n, ops):
        key = (backing, n, ops)
        if key not in seen and U.valid_program(n, ops, 3):
            seen.add(key)
            out.append(key)
    for backing in ('list', 'dict'):
        for n in range(0, 4):
            for op in U.ALPHABET:
                add(backing, n, (op,))
    if tier == 'quick':
        for a, b in U.class_pairs(U.ALPHABET):
            if a[0] in sel and b[0] in sel:
                continue
            if a[0] in ('cat_b', 'isp_b', 'isp3', 'cat_self', 'isp_self', 'tile') and b[0] in sel:
                add('dict', 1, (a, b))
                continue
            add('dict', 2, (a, b))
    else:
        for backing in ('list', 'dict'):
            for n in ((1, 3) if backing == 'dict' else (2,)):
                for a in U.ALPHABET:
                    for b in U.ALPHABET:
                        if a[0] in sel and b[0] in sel and n > 2:
                            continue
                        add(backing, n, (a, b))
    return out


FAMILIES = [
    Family('random', body_random, ['pid', 'consumer', 'n'], [(f'r{i}', 'int') for i in range(R_NR)] + [(f'c{i}', 'int') for i in range(R_NC)],
           lambda tier, seed: [(p, c, n) for p in R_PIPES for c in R_CONSUMERS for n in ((0, 2) if tier == 'quick' else (0, 1, 2, 3))],
           timeout=dict(quick=120, thorough=600), desc='profiled vs plain twin of pipelines with random stages (equally seeded), profiler inside / outside catch, prefetch(2,2), copy(freeze)'),
    Family('interleave', body_interleave, ['backing', 'n', 'ops', 'scenario'], U.POOL_PARAMS, _iconds, timeout=60,
           desc='hit counts under partial iteration + indexing, two interleaved iterators, an abandoned iteration'),
    Family('profile', body_profile, ['backing', 'n', 'ops'], U.POOL_PARAMS + [('i', 'int')], conditions, timeout=dict(quick=300, thorough=300),
           desc='ProfilingDataset(p) vs p: examples, order, errors, len, ds[i], keys; p untouched; hit counts'),
]
