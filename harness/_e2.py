"""Shared glue of the E2 (thread-program BMC) checks C04-C07."""
import json
import os
import time

from engine import rt
from engine.bmc import run as bmcrun

BACKENDS = ['t', 'concurrent_mp', 'dill_mp', 'multiprocessing', 'mp']

STUBS = [
    'queue.Queue(m)/LifoQueue/SimpleQueue: atomic put (enabled iff not full; m<=0 unbounded), get (enabled iff non-empty), get_nowait/get(block=False) (raises Empty), qsize, empty',
    'threading.Thread(target).start/join (join enabled iff the target finished)',
    'ThreadPoolExecutor(w): submit -> PENDING future in FIFO work queue; a free worker dequeues the oldest item and claims it (PENDING->RUNNING, or drops it if cancelled); '
    'cancel() succeeds iff PENDING; result() enabled iff done, re-raises; __exit__ = shutdown(wait=True)',
    'ProcessPoolExecutor(w): same, except that up to w+1 queued items are marked RUNNING before a process picks them up (EXTRA_QUEUED_CALLS)',
    'multiprocessing.Pool: apply_async + get() with the same claim/finish discipline; __exit__ = terminate() (pending discarded, running killed)',
    'pathos ProcessPool: apipe + get(); terminate() as above; __exit__ is a no-op (pathos/abstract_launcher.py)',
    'user function / source iterator: arbitrary duration (start and finish are separate environment steps), may raise at a solver-chosen position',
    'dill round trip: the payload carries the task argument',
]
ASSUMPTIONS = [
    'atomicity: one step = one shared-variable access or one modelled library call in Python evaluation order (at least as fine as source-line granularity)',
    'library internals (queue, threading, executors) are contracts, not encoded; ensure_single_thread_numeric is a precondition (OMP_NUM_THREADS=MKL_NUM_THREADS=1)',
    'schedules longer than K steps are covered only because the completeness-threshold query (no unfinished, un-deadlocked execution after K steps) is unsat',
    'process-pool back ends cannot be scheduled: their adapters are encoded, the pool is a contract, replay is uncontrolled',
    'a consumer that stops before the first example never starts the generator body (PEP 342): close_at = 0 is excluded',
]


def plan(tier):
    """(system, backend, bounds) groups"""
    if tier == 'quick':
        g = [dict(system='stp', backend=None, N=2, B=2, Wk=1, K=40)]
        for b in BACKENDS:
            g.append(dict(system='lpm', backend=b, N=2, B=2, Wk=2, K=44))
        # one exact instantiation with three elements for the thread pool: the smallest one in which a full buffer meets out-of-order completion
        # of two workers (n<=2 cannot show it).  The next one (buffer 3, not yet full when the third element is pulled) costs 5-7 min per query
        # and is part of the thorough tier (n<=3, buffer<=3, workers<=3).
        g.append(dict(system='lpm', backend='t', N=3, B=2, Wk=2, K=60, n_exact=3, B_exact=2, W_exact=2, timeout=420))
        return g
    g = [dict(system='stp', backend=None, N=3, B=3, Wk=1, K=75), dict(system='stp', backend=None, N=4, B=3, Wk=1, K=95)]
    for b in BACKENDS:
        g.append(dict(system='lpm', backend=b, N=3, B=2, Wk=2, K=60))
    # three workers, buffer up to 3 (thread pool only: the process back ends share this main loop and differ in the pool contract,
    # which the n<=3, w<=2 groups above exercise); completeness threshold probed: unsat at K=64
    g.append(dict(system='lpm', backend='t', N=3, B=3, Wk=3, K=64))
    return g


KF_LOST = 'KF-C06-mp-pool-baseexception-hangs'
LOST_WORKER_BACKENDS = ('multiprocessing', 'mp')


def prefix_plan(tier):
    """C07 only: read-ahead needs dataset lengths well above the buffer size.  These groups ask the invariant for every execution
    *prefix* of <= K steps with n up to 6/8 (no completeness threshold: the claim is bounded by steps, not by termination)."""
    if tier == 'quick':
        return [dict(system='stp', backend=None, N=6, B=3, Wk=1, K=34, B_exact=b, prefix=True) for b in (1, 2, 3)] + \
            [dict(system='lpm', backend='t', N=5, B=2, Wk=2, K=44, B_exact=2, W_exact=2, prefix=True, timeout=420)]
    g = [dict(system='stp', backend=None, N=8, B=4, Wk=1, K=44, B_exact=b, prefix=True) for b in (1, 2, 3, 4)]
    g += [dict(system='lpm', backend='t', N=5, B=3, Wk=2, K=44, B_exact=b, prefix=True) for b in (1, 2, 3)]
    return g


def gname(g):
    return 'single_thread_prefetch' if g['system'] == 'stp' else f'lazy_parallel_map[{g["backend"]}]'


def replay_model(system, backend, mode, model):
    """-> (status, text): status in observed / not-observed / uncontrolled"""
    from engine.bmc import gate
    if system == 'stp':
        obs = gate.replay_stp(model)
    elif backend in ('t', 'thread'):
        obs = gate.replay_lpm_thread(model)
    else:
        return uncontrolled_replay(backend, mode, model)
    seen, text = gate.observed_violation(mode, model, obs)
    follow = f'followed {obs["followed"]}/{obs["steps"]} steps, {len(obs["mismatches"])} location mismatches'
    return ('observed' if seen else 'not-observed'), f'{text}; {follow}'


def uncontrolled_replay(backend, mode, model):
    """process pools: run the real back end once, in a child interpreter under a watchdog (a pool whose worker died - e.g.
    multiprocessing.Pool after a BaseException-only failure in a task - never answers)"""
    import subprocess
    import sys
    payload = json.dumps(dict(backend=backend, mode=mode, model=dict(params=model['params'])))
    code = ('import json,sys; from harness import _e2; a=json.loads(sys.argv[1]); '
            'print("UNCONTROLLED-RESULT "+json.dumps(_e2._uncontrolled_inproc(a["backend"], a["mode"], a["model"])))')
    env = dict(os.environ, VERIF_SYMBOLIC='0', OMP_NUM_THREADS='1', MKL_NUM_THREADS='1', PYTHONPATH=os.pathsep.join([rt.REPO, rt.VERIF]))
    try:
        p = subprocess.run([sys.executable, '-c', code, payload], cwd=rt.VERIF, env=env, capture_output=True, text=True, timeout=60)
    except subprocess.TimeoutExpired:
        if mode == 'deadlock':
            return 'observed', 'the run on the real process pool did not return control within 60 s (the workload takes < 2 s)'
        return 'uncontrolled', 'the uncontrolled run on the real process pool did not terminate within 60 s (e.g. a pool worker died)'
    for line in p.stdout.splitlines():
        if line.startswith('UNCONTROLLED-RESULT '):
            st, text = json.loads(line[len('UNCONTROLLED-RESULT '):])
            return st, text
    return 'uncontrolled', 'the uncontrolled run failed: ' + (p.stderr or p.stdout)[-300:]


def _uncontrolled_inproc(backend, mode, model):
    """run the real back end once with marker files; only timing-robust observations"""
    import tempfile
    import shutil
    import lazy_dataset.parallel_utils as pu
    P = model['params']
    n, B, Wk, close_at, taskfail = P['n'], P['buffer_size'], P['max_workers'], P['close_at'], P['taskfail']
    d = tempfile.mkdtemp(prefix='e2replay_', dir=os.environ.get('VERIF_WORK_PARENT', '/var/tmp'))
    try:
        fn = _MarkerTask(d, taskfail, P.get('taskfail_kind', 2))
        delivered, end = [], 'return'
        t0 = time.time()
        try:
            g = pu.lazy_parallel_map(fn, _source(n, P.get('fail_at', -1), P.get('fail_kind', 2)), buffer_size=B, max_workers=Wk, backend=backend)
            for x in g:
                delivered.append(x)
                if len(delivered) == close_at:
                    g.close()
                    break
        except BaseException as e:   # noqa
            end = type(e).__name__
        t_ret = time.time()
        time.sleep(1.5)
        late = []
        for name in os.listdir(d):
            if name.startswith('finish'):
                if os.path.getmtime(os.path.join(d, name)) > t_ret + 0.05:
                    late.append(name)
        if mode == 'deadlock':
            return 'not-observed', f'the run returned control (end={end})'
        if mode == 'after_return':
            return ('observed' if late else 'not-observed'), f'tasks that finished after control was back with the consumer: {sorted(late)} (end={end})'
        if mode in ('order', 'complete'):
            bad = delivered != list(range(n)) or end != 'return'
            return ('observed' if bad else 'not-observed'), f'delivered {delivered} end={end}'
        if mode.startswith('src_error'):
            f = P['fail_at']
            ok = delivered == list(range(f)) and end == _marker_exc(P.get('fail_kind', 2)).__name__
            return ('not-observed' if ok else 'observed'), f'source failure at position {f}: delivered {delivered}, ended with {end}'
        if mode.startswith('error_position'):
            ok = delivered == list(range(taskfail)) and end == _marker_exc(P.get('taskfail_kind', 2)).__name__
            return ('not-observed' if ok else 'observed'), f'delivered {delivered} end={end}'
        return 'uncontrolled', f'no timing-robust observer for {mode} on a process pool'
    finally:
        shutil.rmtree(d, ignore_errors=True)


def _marker_exc(kind):
    return {2: MarkerError, 3: MarkerBaseError, 5: MarkerQueueEmpty}[kind]


def _source(n, fail_at, fail_kind):
    for i in range(n + 1):
        if i == fail_at:
            raise _marker_exc(fail_kind)(i)
        if i < n:
            yield i


class MarkerError(Exception):
    pass


class MarkerBaseError(BaseException):
    pass


import queue as _queue


class MarkerQueueEmpty(_queue.Empty):
    pass


class _MarkerTask:
    """picklable task: sleeps, writes marker files"""

    def __init__(self, d, taskfail, kind):
        self.d, self.taskfail, self.kind = d, taskfail, kind

    def __call__(self, i):
        open(os.path.join(self.d, f'start{i}'), 'w').close()
        if i == self.taskfail:
            raise _marker_exc(self.kind)(i)
        time.sleep(0.6)
        open(os.path.join(self.d, f'finish{i}'), 'w').close()
        return i


def custom_replay(payload):
    """entry point for `./vcheck <ID> --replay <file>`"""
    status, text = replay_model(payload['system'], payload.get('backend'), payload['mode'], payload['model'])
    return ('fails' if status == 'observed' else 'holds'), text


def run(pid, tier, seed, ctx, modes_for, known_carve=None, witnesses=2, extra_groups=None, witness_lost=False):
    """modes_for(group) -> list of property queries.  known_carve: {(system, backend, mode): finding id}"""
    log = ctx['log']
    groups = plan(tier) + list(extra_groups or [])
    specs = []
    tmo = 170 if tier == 'quick' else 1500
    for gi, g in enumerate(groups):
        pre = ['readahead_tight'] if g.get('prefix') else ['threshold', 'reach']
        lostw = g['system'] == 'lpm' and g['backend'] in LOST_WORKER_BACKENDS and rt.known(KF_LOST)
        for mode in pre + list(modes_for(g)):
            spec = dict(g, mode=mode, timeout=g.get('timeout', tmo), gi=gi)
            spec.pop('prefix', None)
            if lostw:
                spec['region'] = 'exclude_lost_worker'      # known finding KF_LOST: its region is carved out of every query ...
            specs.append(spec)
        if lostw and witness_lost:
            specs.append(dict(g, mode='deadlock', timeout=tmo, gi=gi, region='only_lost_worker'))      # ... and witnessed by this one
    log(f'[{pid}] E2: {len(specs)} BMC queries over {len(groups)} generated transition systems')
    t0 = time.time()
    results = bmcrun.run_queries(specs, ctx['nproc'], log=log)
    out = dict(states=0, transitions=0, validated=0, solver_time_s=0.0, queries=len(specs), discharged=0, inconclusive=[], samples=[],
               harness_errors=[], violations=[], coverage={})
    by_group = {}
    for r in results:
        by_group.setdefault(r['spec']['gi'], []).append(r)
    systems_desc = {}
    known_seen = []
    for gi, g in enumerate(groups):
        rs = by_group[gi]
        if g.get('prefix'):
            # step-bounded claim: no termination needed, hence no threshold / reach / witness replay for this group
            th = dict(result='unsat', system=rs[0].get('system'))
            reach = [r for r in rs if r['spec']['mode'] == 'readahead_tight'][0]     # must be sat: the bound is reached within K steps
        else:
            th = [r for r in rs if r['spec']['mode'] == 'threshold'][0]
            reach = [r for r in rs if r['spec']['mode'] == 'reach'][0]
        desc = th.get('system') or reach.get('system') or {}
        systems_desc[gname(g)] = desc
        nloc = sum(desc.get('locations', {}).values()) if desc else 0
        ncmd = desc.get('commands', 0)
        group_ok = True
        for r in rs:
            out['solver_time_s'] += r.get('secs', 0)
            if r['result'] == 'unsupported':
                out['harness_errors'].append(f'TRANSLATION-UNSUPPORTED {gname(g)}: {r.get("detail")}')
                group_ok = False
            elif r['result'] == 'error':
                out['harness_errors'].append(f'E2 error in {bmcrun.label(r["spec"])}: {r.get("detail", "")[-600:]}')
                group_ok = False
        if not group_ok:
            continue
        threshold_ok = th['result'] == 'unsat'
        why = ''
        if not threshold_ok:
            # `unsat` verdicts are claims about *all* executions and need the completeness threshold; `sat` verdicts are concrete
            # schedules and stand on their own (they are replayed on the real code below)
            why = ('K too small: an execution is still running after K steps (e.g. an unfair schedule of a polling loop)' if th['result'] == 'sat'
                   else f'threshold query {th["result"]}')
        if reach['result'] != 'sat':
            out['harness_errors'].append(f'vacuous: {bmcrun.label(reach["spec"])} is {reach["result"]} (no complete run exists in the model)')
            continue
        # translator validation: the real code must follow the witness schedule location by location
        if not g.get('prefix') and (g['system'] == 'stp' or g['backend'] in ('t', 'thread')):
            from engine.bmc import gate
            obs = gate.replay_stp(reach['model']) if g['system'] == 'stp' else gate.replay_lpm_thread(reach['model'])
            out['validated'] += 1
            n = reach['model']['params']['n']
            if obs['mismatches'] or obs['delivered'] != list(range(n)) or obs['end'] != 'return':
                out['harness_errors'].append(f'translator validation failed for {gname(g)}: real code left the witness schedule: '
                                             f'{obs["mismatches"]} delivered={obs["delivered"]} end={obs["end"]}')
                continue
        for r in rs:
            mode = r['spec']['mode']
            out['states'] += nloc * (g['K'] + 1)
            out['transitions'] += ncmd * g['K']
            sample = dict(query=bmcrun.label(r['spec']), verdict=r['result'], solver_s=r.get('secs'))
            if mode in ('threshold', 'reach', 'readahead_tight'):
                if mode != 'threshold' or threshold_ok:
                    out['discharged'] += 1
                if len(out['samples']) < 14:
                    out['samples'].append(sample)
                continue
            if r['result'] == 'unsat':
                if threshold_ok:
                    out['discharged'] += 1
                else:
                    out['inconclusive'].append(f'{bmcrun.label(r["spec"])}: unsat within K, but {why}')
            elif r['result'] == 'sat':
                model = r['model']
                status, text = replay_model(g['system'], g['backend'], mode, model)
                out['validated'] += 1
                sample['replay'] = f'{status}: {text}'
                sample['params'] = model['params']
                kid = (known_carve or {}).get((g['system'], g['backend'], mode))
                if r['spec'].get('region') == 'only_lost_worker':
                    kid = KF_LOST
                if status == 'observed':
                    if kid and rt.known(kid):
                        known_seen.append((kid, f'{bmcrun.label(r["spec"])}: {text}'))
                    else:
                        out['violations'].append(dict(module=f'harness.{pid}', custom='bmc', family='bmc', system=g['system'], backend=g['backend'],
                                                      mode=mode, model=model, message=f'{bmcrun.label(r["spec"])}: {text}',
                                                      detail='schedule: ' + ' | '.join(
                                                          f"{s['actor']}:{s.get('line', s.get('task'))}:{s['label']}" for s in model['trace'])[:1400]))
                elif status == 'not-observed' and g['system'] == 'lpm' and g['backend'] not in ('t', 'thread'):
                    # process pools cannot be scheduled: an uncontrolled run that does not show the behaviour proves nothing either way
                    out['inconclusive'].append(f'{bmcrun.label(r["spec"])}: sat in the model; the uncontrolled run on the real process pool did not show it ({text})')
                elif status == 'not-observed':
                    out['harness_errors'].append(f'ENGINE-ARTEFACT: {bmcrun.label(r["spec"])} is sat but the real code does not show it: {text}')
                else:
                    out['inconclusive'].append(f'{bmcrun.label(r["spec"])}: sat, but {text}')
            else:
                out['inconclusive'].append(f'{bmcrun.label(r["spec"])}: solver answered {r["result"]} ({r.get("detail", "")})')
            if len(out['samples']) < 14:
                out['samples'].append(sample)
    out['known_lines'] = known_seen
    out['coverage'] = dict(e2_systems=systems_desc,
                           e2_bounds=[dict(system=gname(g), claim=('every execution prefix of <= K steps' if g.get('prefix') else 'every execution (threshold query)'),
                                           **{k: g.get(k) for k in ('N', 'B', 'Wk', 'K', 'B_exact')}) for g in groups],
                           e2_wall_s=round(time.time() - t0, 1), e2_known_seen=known_seen)
    out['solver_time_s'] = round(out['solver_time_s'], 1)
    return out
