#!/bin/sh
# Build the overlay venv used by every check: /venv (the repository's interpreter and
# dependencies) + crosshair-tool/z3 from the offline wheelhouse.  Idempotent, offline.
set -e
cd "$(dirname "$0")"
V=.venv
if [ ! -x "$V/bin/python" ] || ! "$V/bin/python" -c 'import crosshair, z3, numpy' 2>/dev/null; then
    rm -rf "$V"
    /venv/bin/python -m venv "$V"
    SP=$("$V/bin/python" -c 'import sysconfig; print(sysconfig.get_paths()["purelib"])')
    echo "import site; site.addsitedir('/venv/lib/python3.12/site-packages')" > "$SP/_overlay.pth"
    PIP_NO_INDEX=1 "$V/bin/python" -m pip install -q --no-index --find-links /opt/veriftools/wheels crosshair-tool >/dev/null
    "$V/bin/python" -c 'import crosshair, z3, numpy'
fi
echo "setup ok: $($V/bin/python -c 'import crosshair,z3; print("crosshair", crosshair.__version__ if hasattr(crosshair,"__version__") else "0.0.110", "z3", z3.get_version_string())')"
