#!/usr/bin/env python3
"""Debug aid (NOT a deciding step): run harness bodies concretely on random small ints to shake out reference bugs.
usage: tools/concrete_fuzz.py harness.C01 iter [tier] [rounds]"""
import importlib, os, random, sys, traceback
os.environ['VERIF_SYMBOLIC'] = '0'
os.environ.setdefault('OMP_NUM_THREADS', '1'); os.environ.setdefault('MKL_NUM_THREADS', '1')
sys.path[:0] = ['/verif', os.environ.get('VERIF_REPO', '/repo')]
from engine import rt
mod, famname = sys.argv[1], sys.argv[2]
tier = sys.argv[3] if len(sys.argv) > 3 else 'quick'
rounds = int(sys.argv[4]) if len(sys.argv) > 4 else 3
h = importlib.import_module(mod)
fam = {f.name: f for f in h.FAMILIES}[famname]
rnd = random.Random(1)
bad = {}
nrun = nrej = 0
for sel in fam.conditions(tier, 0):
    for _ in range(rounds):
        args = [rnd.choice([True, False]) if t == 'bool' else
                (rnd.randint(0, 2) if nme[0] in 'rc' and nme[1:].isdigit() else
                 (100 + 7 * int(nme[1:]) + rnd.randint(0, 3) if nme[0] == 'v' and nme[1:].isdigit() else
                  (rnd.randint(1, 6) if nme in ('thr',) or (nme[0] == 'm' and nme[1:].isdigit()) else rnd.randint(-3, 4))))
                for nme, t in fam.params]
        try:
            r = fam.body(*sel, *args)
            nrun += 1
        except rt.Rejected:
            nrej += 1
            continue
        except BaseException as e:
            r = f'EXC {type(e).__name__}: {str(e)[:100]}'
        if r is not True:
            bad.setdefault(tuple(sel), (args, r))
print('ran', nrun, 'rejected', nrej, 'bad conditions', len(bad))
for sel, (args, r) in list(bad.items())[:int(os.environ.get('SHOW', '40'))]:
    print(sel, args, r)
