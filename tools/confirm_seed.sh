#!/bin/sh
# tools/confirm_seed.sh <seed name> <tier> <check ids...>
# The procedure of the brief: apply the seeded change to /repo itself, run the checks, undo it straight afterwards.
# (No other check may be running meanwhile: they all read /repo.)
name=$1; tier=$2; shift 2
git -C /repo diff --quiet || { echo "/repo is not clean"; exit 3; }
git -C /repo apply /verif/seeded/$name/patch.diff || { echo "patch does not apply"; exit 3; }
trap 'git -C /repo checkout -- .' EXIT INT TERM
cd /verif
for id in "$@"; do
    ./vcheck $id $tier > /tmp/confirm_${name}_${id}.log 2>&1
    rc=$?
    echo "seed=$name check=$id tier=$tier exit=$rc violations=$(grep -c '^VIOLATION' /tmp/confirm_${name}_${id}.log) $(grep '^\['$id'\] tier' /tmp/confirm_${name}_${id}.log | cut -c1-160)"
done
