#!/usr/bin/env python3
"""import a sub-agent's seeded change into /verif/seeded/<name>/ (patch.diff, demo.py, notes.md, meta.json skeleton)"""
import json, os, shutil, sys
src, name, prop = sys.argv[1], sys.argv[2], sys.argv[3]
dst = os.path.join('/verif/seeded', name)
os.makedirs(dst, exist_ok=True)
for f in ('patch.diff', 'demo.py', 'notes.md'):
    shutil.copy(os.path.join(src, f), os.path.join(dst, f))
meta = dict(name=name, breaks_property=prop, origin='sub-agent that saw only the property text and its own scratch worktree', needs=open(os.path.join(src, 'notes.md')).read()[:1500],
            confirmed=dict(demo_without_change_exit=0, demo_with_change_exit=1, how='git apply in a scratch worktree of /repo HEAD under /tmp, demo.py run with PYTHONPATH=<worktree>',
                           suite='see suite.txt'), detected_by=[])
mp = os.path.join(dst, 'meta.json')
if not os.path.exists(mp):
    json.dump(meta, open(mp, 'w'), indent=1)
print('imported', name)
