#!/usr/bin/env python3
"""Regenerate seeded/README.md and the detection fields of seeded/*/meta.json from seeded/results.json (maintained by hand from the logs of
tools/try_seed.sh / tools/confirm_seed.sh runs)."""
import json, os
V = os.path.dirname(os.path.dirname(os.path.abspath(__file__)))
res = json.load(open(os.path.join(V, 'seeded', 'results.json')))
lines = ['# Seeded changes', '',
 'Each directory holds one change to fgnt/lazy_dataset that breaks one property while the existing suite still passes (`patch.diff`), a',
 'demonstration (`demo.py`: exit 1 with the change, exit 0 without), the sub-agent\'s `notes.md` and `meta.json`.  Every change was produced by a',
 'fresh sub-agent that was given only the text of the property and its own scratch worktree under /tmp - nothing from /verif (the second wave,',
 '`*b`, was additionally told which code area the first-wave change had already used, so that it would pick a different one).  I confirmed each',
 'one myself before keeping it: demo in both states in my own scratch worktree, and the pinned suite with the patch applied',
 '(`tools/suite_seed.sh`, result in `suite.txt`: no stable-baseline test fails).  None of them is ever committed to /repo.',
 '`tools/try_seed.sh` runs checks against a scratch worktree with the patch applied (VERIF_REPO); `tools/confirm_seed.sh` applies the patch to',
 '/repo itself, runs the checks and undoes it.', '',
 '| seed | property | change (from notes.md) | caught by | missed / not judged, and what it took |', '|---|---|---|---|---|']
for name in sorted(res):
    r = res[name]
    mp = os.path.join(V, 'seeded', name, 'meta.json')
    m = json.load(open(mp))
    m['detected_by'] = r['caught_by']
    m['missed_by'] = r['missed_by']
    suite = os.path.join(V, 'seeded', name, 'suite.txt')
    if os.path.exists(suite):
        m['confirmed']['suite'] = open(suite).read().strip()
    m['what_i_ran'] = ['demo.py with and without the patch in my own scratch worktree of /repo HEAD (exit 1 / exit 0)',
                       'the pinned suite with the patch applied (tools/suite_seed.sh): suite.txt',
                       'tools/try_seed.sh <name> quick <checks>'] + r.get('extra_runs', [])
    json.dump(m, open(mp, 'w'), indent=1)
    notes = ' '.join(open(os.path.join(V, 'seeded', name, 'notes.md')).read().split())
    lines.append(f"| {name} | {m['breaks_property']} | {notes[:240].replace('|', '/')}... | {'; '.join(r['caught_by']).replace('|', '/') or '-'} | {'; '.join(r['missed_by']).replace('|', '/') or '-'} |")
lines += ['', open(os.path.join(V, 'seeded', 'SCORE.md')).read()]
open(os.path.join(V, 'seeded', 'README.md'), 'w').write('\n'.join(lines))
print('seeds', len(res))
