#!/usr/bin/env python3
"""Regenerate MANIFEST.json from the table below (keeps the manifest valid and current)."""
import json
import os

V = os.path.dirname(os.path.dirname(os.path.abspath(__file__)))
BOUNDED = ('Bounded solver verdict: every condition is the real lazy_dataset code executed symbolically by CrossHair (z3 decides each branch) until its path tree is '
           'exhausted ("Confirmed over all paths"); it holds for every value of the symbolic inputs inside the stated structural bounds and says nothing outside them. '
           'Counterexamples are replayed on the real code (real numpy/pickle/threads) before they are reported. ')
BMC = ('Bounded model checking: single_thread_prefetch / lazy_parallel_map are translated from their current AST into a transition system (one step = one shared access or '
       'library call), unrolled K steps in z3 over bit-vector state; schedules, completion orders, stop and failure points are solver variables. unsat = holds for every '
       'execution within the bounds; a completeness-threshold query shows that K steps suffice; sat models are replayed on the real code under a gate scheduler. ')
TRUST1 = 'trusted: CrossHair 0.0.110 + z3 5.1 (self-tested each run), the modelling shims (numpy/pickle contract models validated against the libraries each run), the harness oracle; '
TRUST2 = ('trusted: the AST->CFG translator (validated each run by replaying solver witnesses on the real code, location by location), the library contracts for '
          'queue/threading/executors listed in the evidence, z3; ')

E1, E2, E3 = 'E1-crosshair', 'E2-bmc', 'E3-smt-kernel'
CHECKS = {
    'C01': (E1, 'CrossHair symbolic execution of whole pipelines of the real core.py against an eager list reference; one condition per program structure, path tree exhausted; replay on real code',
            BOUNDED + 'Programs: every op of a 69-op alphabet at depth 1 (n<=3), op-class pairs at depth 2 (quick) / all pairs + sampled depth 3 (thorough); values, offsets, thresholds, slice bounds, index entries and shuffle permutations symbolic. Family opaque: non-numeric examples (None, 0, False, empty string, (), a key-like string) at one or two solver-chosen positions through the value-agnostic combinators, depth<=2.',
            TRUST1 + 'serial contract of lazy_parallel_map/single_thread_prefetch (discharged by C04-C07); bounds n<=3/4, depth<=2/3', 'DESIGN.md 3, 4 C01'),
    'C02': (E1 + '+' + E3, 'CrossHair per-stage index contracts on abstract datasets of symbolic unbounded length (L1) + whole pipelines with a symbolic index (L2); cvc5 QF_BVFP lemma for the float formula of BatchDataset.__len__',
            BOUNDED + 'L1 covers lengths and indices without bound for concatenate/map/batch(non-negative index); L2 every op / op-class pairs with n<=3; E3: L<2^16 (quick) / 2^31 (thorough), b<=4/8.',
            TRUST1 + 'cvc5 1.0.3 for the FP lemma (translator validated against the real function on L in 0..40 each run)', 'DESIGN.md 4 C02'),
    'C03': (E1, 'CrossHair symbolic execution of keys()/items()/key lookup of dict-backed pipelines against the reference keys; removed and absent keys must raise',
            BOUNDED + 'dict-backed sources n<=3, every op / op-class pairs; items() of filtered / exception-filtered / prefetched datasets (catch_filter_exception inside a prefetch included) with a symbolic failure threshold.', TRUST1 + 'known finding KF-C03-slice-lookup-outside-selection is carved out', 'DESIGN.md 4 C03'),
    'C04': (E2 + '+' + E1, 'z3 BMC of the translated parallel_utils functions: queries order, complete (+threshold, reach) for single_thread_prefetch and lazy_parallel_map x 5 back ends; for the order of single_thread_prefetch additionally one-step induction over the same generated transition system with a Houdini-pruned candidate invariant (every query z3 over bit-vectors: every n<=100, schedules of any length); CrossHair for core.py forwarding',
            BMC + 'Bounds: n<=2 items, buffer<=2, workers<=2 (quick) / n<=3 (single thread also n<=4), buffer<=3, workers<=3 for the thread pool (thorough).', TRUST2 + 'E1 part: serial contract stub records forwarded arguments', 'DESIGN.md 2.2, 4 C04'),
    'C05': (E2, 'z3 BMC: deadlock, after-return (no thread/task alive or starting once control is back), cancelled (no PENDING task at executor exit after an early stop), threshold',
            BMC + 'Every stop point k in 1..n, every failure point, buffer from 1.', TRUST2 + 'process pools: uncontrolled replay with marker files', 'DESIGN.md 2.2, 4 C05'),
    'C06': (E2 + '+' + E1, 'z3 BMC: error-position for Exception and BaseException-only failures of the source and of the mapped function; CrossHair for catch_filter_exception with a symbolic failure plan',
            BMC + 'One failing position per run in E2; E1: arbitrary subsets of failing positions, n<=3/4, also above a per-epoch reshuffle over 2/3 epochs of one prefetching object.', TRUST2 + 'known finding KF-C06-parmap-source-error-drops-buffered: the strong query is its witness, a weaker query must hold', 'DESIGN.md 2.2, 4 C06'),
    'C07': (E2 + '+' + E1, 'z3 BMC with pulled/started/delivered counters in the encoded state: pulled-delivered<=B+2 and started-delivered<=B in every reachable state; for single_thread_prefetch additionally one-step induction over the same generated transition system (potential functions found by z3 over linear integer arithmetic, inductiveness decided by z3 over bit-vectors: every n<=100, schedules of any length); CrossHair for the constructor assertions',
            BMC + 'Complete executions are checked for n<=2/3, execution prefixes for n<=6/8; for single_thread_prefetch an inductive invariant (verified by three unsat queries on the encoded transition relation, regenerated each run) lifts the pulled bound to every n<=100 and schedules of any length when it closes - if it does not close the claim stays the bounded one (reported as inconclusive). No induction for lazy_parallel_map.', TRUST2, 'DESIGN.md 2.2, 4 C07'),
    'C08': (E1, 'CrossHair: log of user-function applications of the real lazy pipeline equals the log of the same program written with plain generators, after construction, after k results and after point-wise access',
            BOUNDED + '16 program templates, n<=3/4, every prefix length k; construction clause: every two-stage composition of 11 x 28 lazy stages, accepted or refused by the library (structural enumeration, no arithmetic).', TRUST1 + 'serial contract for prefetch', 'DESIGN.md 4 C08'),
    'C09': (E1, 'CrossHair as exhaustive driver over selector histories (access path, target, mutation); each path runs the real pickle/deepcopy/numpy/diskcache code untraced and compares every access path with the pristine snapshot',
            'Exhaustive within the selector family: the solver enumerates every history of 1 step and (sampled in quick, all in thorough) 2 steps over 10 storage kinds x 2 example shapes (dict, tuple around a dict; plus examples that cannot be serialised for 7 kinds) x 10 access paths x 9 mutations; no arithmetic is involved (weak fit of the technique, stated in DESIGN.md).',
            'trusted: CrossHair path enumeration, the harness; bounds: 2 examples, histories <= 2 steps', 'DESIGN.md 4 C09'),
    'C10': (E1, 'CrossHair: real CacheDataset with fresh solver-chosen upstream values per call, solver-chosen memory readings and threshold; histories of accesses are structural',
            BOUNDED + 'Histories of length <=3 over 15 access kinds, n=2/3; one solver-chosen upstream call (among the first six) returns None.', TRUST1 + 'psutil stub as input carrier', 'DESIGN.md 4 C10'),
    'C11': (E1, 'CrossHair as exhaustive driver over lifecycle selectors (accessed subset, reuse/clear flags, release order, kill point) on the real diskcache package',
            'Exhaustive within the selector family; kill points are "after the k-th store" of a child that ends with os._exit. A kill inside a store is not applicable (SQLite atomicity is not encoded).',
            'trusted: diskcache/SQLite, CrossHair path enumeration; n=3', 'DESIGN.md 4 C11'),
    'C12': (E1, 'CrossHair: every rng call returns a solver-chosen permutation/choice; interleavings of two / three iterators are solver-chosen; outputs must be permutations, local shuffle displacement bounded',
            BOUNDED + 'n<=3/4, buffer 1..n+1, two and three iterators in flight (complete interleavings), self-zip / self-intersperse.', TRUST1 + 'known finding KF-C12-reshuffle-shared-permutation is carved out (overlapping iterators of one ReShuffleDataset)', 'DESIGN.md 4 C12'),
    'C13': (E1, 'CrossHair: twin builds with equally seeded carriers and adversarial global generator must agree per epoch (plain, copy, prefetch); frozen copies fixed; copy() compared attribute by attribute',
            BOUNDED + '7 random pipelines + 5 with a reshuffle below prefetch/catch/batch/filter, n<=3, 2/3 epochs; 22 stage kinds for copy().', TRUST1, 'DESIGN.md 4 C13'),
    'C14': (E1, 'CrossHair: symbolic failure plan per position (ok / listed / subclass / foreign) below catch(); lazy filter vs eager filter vs FilterException+catch',
            BOUNDED + 'n<=3/4, 4 raising-stage layouts, 4 caught-set forms, value and items iteration; failures from the families of 9 builtin exception types below concatenation / tiling / index list / intersperse; catch() above a per-epoch reshuffle over 2/3 epochs against an equally seeded twin.', TRUST1, 'DESIGN.md 4 C14'),
    'C15': (E1, 'CrossHair: split/shard with symbolic (unbounded below) section count and shard index; partition, order, sizes, shard==split[i], invalid counts rejected',
            BOUNDED + 'n<=6/10; k<=n+3.', TRUST1 + 'array_split contract shim validated against numpy (n<=12,k<=13) each run', 'DESIGN.md 4 C15'),
    'C16': (E1, 'CrossHair: both sides of each law built from real code and observed identically (iteration twice, len, keys, items, symbolic index)',
            BOUNDED + '12 laws x prefixes x n<=3/4; slice composition over 6x6 slice forms; tile(r, shuffle=True) vs r one-time shuffles under one generator state.', TRUST1, 'DESIGN.md 4 C16'),
    'C17': (E1, 'CrossHair with the float model pinned to real arithmetic: example lengths and all limits symbolic; conservation, size, padding, max_total_size, expiration, max_buffered_examples, drop mode, sort',
            BOUNDED + 'n<=4/5, batch_size 1..3, dyadic rates.', TRUST1 + 'real-vs-IEEE agreement argument for dyadic rates and integer lengths < 2^51', 'DESIGN.md 4 C17'),
    'C18': (E1, 'CrossHair symbolic execution of Dataset.sort/groupby, path tree exhausted per (n, backing, prefix) condition',
            BOUNDED + 'Sort keys unbounded symbolic ints (ties included), n<=4/5.', TRUST1, 'DESIGN.md 4 C18'),
    'C19': (E1, 'CrossHair over the real database.py: description family is structural, request sequences are symbolic selectors; real pickle/JSON',
            'Exhaustive within the family: 16 descriptions x request sequences of length 2/3 over 12 request kinds (incl. lists that contain aliases), dict- and JSON-backed; the solver contributes exhaustiveness over request sequences.',
            'trusted: CrossHair, the harness; set() stand-in in database.py (CrossHair model limitation)', 'DESIGN.md 4 C19'),
    'C20': (E1, 'CrossHair: ProfilingDataset(p) vs p over the pipeline universe (examples, errors, len, symbolic index, keys), p untouched, hit counts against instrumented source containers',
            BOUNDED + 'every op / op-class pairs, n<=3.', TRUST1 + 'timestamp replaced by an integer counter', 'DESIGN.md 4 C20'),
}
NA = {}
ALL = [f'C{i:02d}' for i in range(1, 21)]
for pid in ALL:
    if pid not in CHECKS and pid not in NA:
        NA[pid] = 'check not built yet in this round (work in progress; see DESIGN.md section 4 for the planned solver-based check)'
m = dict(
    version=1,
    setup_cmd='./setup.sh',
    hooks=dict(guard='LAZY_DATASET_VERIF', enable='no source hooks are needed: all stubbing is done from the harness by rebinding module attributes at run time',
               baseline_off_cmd='cd /repo && /venv/bin/python -m pytest -ra -q -p no:cacheprovider --timeout=900 --continue-on-collection-errors',
               source_commits=[], add_only=True),
    engines=[
        dict(name=E1, path='engine/xh.py', serves_properties=sorted(p for p, t in CHECKS.items() if E1 in t[0]),
             kind_free_text='symbolic execution of the real Python code (CrossHair 0.0.110), z3 decides every branch; one condition per structure, exhausted path tree = discharged'),
        dict(name=E2, path='engine/bmc/', serves_properties=sorted(p for p, t in CHECKS.items() if E2 in t[0]),
             kind_free_text='AST -> CFG -> z3 bit-vector bounded model checking of the thread programs in parallel_utils.py; gate-scheduler replay on the real code'),
        dict(name=E3, path='engine/kernels.py', serves_properties=['C02'], kind_free_text='AST -> SMT-LIB QF_BVFP lemma, cvc5'),
    ],
    checks=[dict(property_id=pid, quick_cmd=f'./vcheck {pid} quick', thorough_cmd=f'./vcheck {pid} thorough', evidence_file=f'evidence/{pid}.json',
                 replay_cmd_template=f'./vcheck {pid} --replay {{path}}', engine=t[0],
                 level_claimed=dict(category='model_checking', text=t[2], design_ref=t[4]), level_note=t[3], technique=t[1])
            for pid, t in sorted(CHECKS.items())],
    not_applicable=[dict(property_id=pid, reason=r) for pid, r in sorted(NA.items())],
    notes='All results are bounded: "holds for every value of the symbolic variables inside the stated bounds". Known findings: known_findings.json. See DESIGN.md.',
)
json.dump(m, open(os.path.join(V, 'MANIFEST.json'), 'w'), indent=1)
print('checks', len(m['checks']), 'not_applicable', len(m['not_applicable']))
