#!/usr/bin/env python3
"""Regenerate MANIFEST.json from the table below (keeps the manifest valid and current)."""
import json, os
V = os.path.dirname(os.path.dirname(os.path.abspath(__file__)))
BOUNDED = ('Bounded solver verdict: every condition is the real lazy_dataset code executed symbolically by CrossHair (z3 decides each branch) '
           'until the path tree is exhausted; holds for every value of the symbolic inputs inside the stated structural bounds, nothing outside.')
CHECKS = {
    # id: (technique, level text, level note, design ref)
    'C18': ('CrossHair symbolic execution of Dataset.sort/groupby, z3 per branch, path tree exhausted per (n, backing, prefix) condition; counterexamples replayed on real code',
            BOUNDED + ' Sort keys are unbounded symbolic ints (ties included), n <= 4/5.',
            'trusted: CrossHair 0.0.110 + z3 5.1 (self-tested each run), numpy contract shim (validated against numpy each run); bound n<=4 (quick) / 5 (thorough)',
            'DESIGN.md section 4 C18'),
}
CHECKS['C01'] = ('CrossHair symbolic execution of whole pipelines (real core.py code) against an eager list reference; one condition per program structure, path tree exhausted; counterexamples replayed on real code with real numpy/pickle/threads',
                 BOUNDED + ' Programs: every op of a 62-op alphabet at depth 1 (n<=3), op-class pairs at depth 2 (quick) / all pairs + sampled depth 3 (thorough); values, offsets, thresholds, slice bounds, index entries and shuffle permutations are symbolic.',
                 'trusted: CrossHair + z3, numpy/pickle contract shims (validated each run), serial contract of lazy_parallel_map/single_thread_prefetch (discharged by the E2 checks C04-C07); bounds n<=3/4, depth<=2/3',
                 'DESIGN.md sections 3 and 4 C01')
NA = {}
ALL = [f'C{i:02d}' for i in range(1, 21)]
for pid in ALL:
    if pid not in CHECKS and pid not in NA:
        NA[pid] = 'check not built yet in this round (work in progress; see DESIGN.md section 4 for the planned solver-based check)'
m = dict(
    version=1,
    setup_cmd='./setup.sh',
    hooks=dict(guard='LAZY_DATASET_VERIF', enable='no source hooks are needed: all stubbing is done from the harness by rebinding module attributes',
               baseline_off_cmd='cd /repo && /venv/bin/python -m pytest -ra -q -p no:cacheprovider --timeout=900 --continue-on-collection-errors',
               source_commits=[], add_only=True),
    engines=[
        dict(name='E1-crosshair', path='engine/xh.py', serves_properties=sorted(CHECKS), kind_free_text='symbolic execution of the real Python code (CrossHair 0.0.110), z3 decides every branch; one condition per structure, exhausted path tree = discharged'),
    ],
    checks=[dict(property_id=pid, quick_cmd=f'./vcheck {pid} quick', thorough_cmd=f'./vcheck {pid} thorough', evidence_file=f'evidence/{pid}.json',
                 replay_cmd_template=f'./vcheck {pid} --replay {{path}}', engine='E1-crosshair',
                 level_claimed=dict(category='model_checking', text=t[1], design_ref=t[3]), level_note=t[2], technique=t[0])
            for pid, t in sorted(CHECKS.items())],
    not_applicable=[dict(property_id=pid, reason=r) for pid, r in sorted(NA.items())],
    notes='All results are bounded: "holds for every value of the symbolic variables inside the stated bounds". See DESIGN.md.',
)
json.dump(m, open(os.path.join(V, 'MANIFEST.json'), 'w'), indent=1)
print('checks', len(m['checks']), 'not_applicable', len(m['not_applicable']))
