#!/bin/sh
# tools/suite_seed.sh <seed names...>: run the repository's pinned suite on a scratch worktree with the seeded change applied;
# writes seeded/<name>/suite.txt (new failures relative to BASELINE.json's always_fail list)
wt=/tmp/seedt
[ -d $wt ] || git -C /repo worktree add -q --detach $wt HEAD
for name in "$@"; do
  cd $wt && git checkout -q --detach $(git -C /repo rev-parse HEAD) && git checkout -q -- . && git apply /verif/seeded/$name/patch.diff || { echo "$name: patch does not apply" > /verif/seeded/$name/suite.txt; continue; }
  PYTHONPATH=$wt /venv/bin/python -m pytest -q -p no:cacheprovider --timeout=900 --continue-on-collection-errors -p no:randomly --junitxml=/tmp/seedt_$name.xml > /tmp/seedt_$name.log 2>&1
  python3 - "$name" <<'PY'
import json, sys, xml.etree.ElementTree as ET
name = sys.argv[1]
base = set(json.load(open('/root/.vp/BASELINE.json'))['always_fail'])
stable = set(json.load(open('/root/.vp/BASELINE.json'))['stable_pass'])
t = ET.parse(f'/tmp/seedt_{name}.xml')
failed, passed = set(), set()
for tc in t.iter('testcase'):
    cid = tc.get('classname', '') + '::' + tc.get('name', '')
    if tc.find('failure') is not None or tc.find('error') is not None:
        failed.add(cid)
    elif tc.find('skipped') is None:
        passed.add(cid)
new = sorted(x for x in failed if x in stable)
open(f'/verif/seeded/{name}/suite.txt', 'w').write(
    f'pinned suite on scratch worktree of /repo HEAD + this patch: {len(passed)} passed, {len(failed)} failed; '
    f'stable-baseline tests that fail with the change: {new if new else "none"}\n')
print(name, len(passed), len(failed), 'NEW FAILURES' if new else 'no new failures', new[:3])
PY
  cd $wt && git checkout -q -- . && git clean -fdq
done
