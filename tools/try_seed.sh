#!/bin/sh
# tools/try_seed.sh <seed name> <tier> <check ids...>
# Runs the given checks against a scratch worktree of /repo HEAD with the seeded change applied (VERIF_REPO), never touching /repo.
# The final confirmation of DESIGN.md 0.5 uses tools/confirm_seed.sh, which applies the patch to /repo itself and undoes it.
name=$1; tier=$2; shift 2
root=$(cd "$(dirname "$0")/.." && pwd)      # the checks of *this* copy of /verif are used (a `vp run` snapshot works on its own code)
wt=${SEED_WT:-/tmp/seedv}
# <seed name> may also be the path of any patch file (e.g. a behaviour-preserving refactoring used to look for false alarms)
if [ -f "$name" ]; then patch=$name; name=$(basename $name .diff); else patch=$root/seeded/$name/patch.diff; fi
[ -d $wt ] || git -C /repo worktree add -q --detach $wt HEAD
cd $wt && git checkout -q --detach $(git -C /repo rev-parse HEAD) && git checkout -q -- . && git apply $patch || { echo "patch does not apply"; exit 3; }
cd $root
for id in "$@"; do
    VERIF_REPO=$wt ./vcheck $id $tier > /tmp/try_${name}_${id}.log 2>&1
    rc=$?
    echo "seed=$name check=$id tier=$tier exit=$rc $(grep -c '^VIOLATION' /tmp/try_${name}_${id}.log) violations; $(grep '^\['$id'\] tier' /tmp/try_${name}_${id}.log | cut -c1-200)"
    grep '^counterexample\|^HARNESS-ERROR' /tmp/try_${name}_${id}.log | head -3 | cut -c1-300
done
cd $wt && git checkout -q -- .
