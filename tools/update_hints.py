#!/usr/bin/env python3
"""Refresh hints/<pid>.json (scheduling hints: which conditions are slow) from the wall times of the last local runs
(.work/walls_<pid>_<tier>.json).  Hints only change the order in which conditions are started, never a verdict."""
import glob, json, os, re
V = os.path.dirname(os.path.dirname(os.path.abspath(__file__)))
for f in sorted(glob.glob(os.path.join(V, '.work', 'walls_*_*.json'))):
    pid, tier = re.match(r'walls_(C\d\d)_(\w+)\.json', os.path.basename(f)).groups()
    walls = json.load(open(f))
    out = os.path.join(V, 'hints', f'{pid}.json')
    old = json.load(open(out)) if os.path.exists(out) else {}
    for k, w in walls.items():
        if w and w >= 8:
            old[k] = max(round(w, 1), old.get(k, 0))
    if old:
        json.dump(old, open(out, 'w'), indent=0, sort_keys=True)
        print(pid, tier, len(old), 'slow conditions')
