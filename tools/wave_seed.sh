#!/bin/sh
# tools/wave_seed.sh <worktree of the sub-agent> <seed name> <property>: import a sub-agent's deliverables, confirm the demonstration in my own
# scratch worktree of /repo HEAD (exit 0 without the change, exit 1 with it) and run the pinned suite with the change applied.
src=$1; name=$2; prop=$3
python3 /verif/tools/import_seed.py $src/_seed $name $prop || exit 3
wt=/tmp/seedc_$name
git -C /repo worktree add -q --detach $wt HEAD || exit 3
cd $wt
PYTHONPATH=$wt timeout 120 /venv/bin/python /verif/seeded/$name/demo.py > /tmp/demo_${name}_clean.log 2>&1; a=$?
git apply /verif/seeded/$name/patch.diff || { echo "patch does not apply"; a=applyfail; }
PYTHONPATH=$wt timeout 120 /venv/bin/python /verif/seeded/$name/demo.py > /tmp/demo_${name}_patched.log 2>&1; b=$?
echo "$name demo: clean exit=$a patched exit=$b"
cd /; git -C /repo worktree remove --force $wt
sh /verif/tools/suite_seed.sh $name
